(* Lexer.v: model of lex.go / token.go (after the repair of next(): refill until a whole rune
   is in the window or the input has ended; empty chunks just ask for the next one).

   Cursor.  The Go lexer keeps (input, start, pos, width, posShift).  The bytes before `start`
   are dead (never read again), so the model keeps the window as a zipper:
     before = input[start:pos] reversed,   after = input[pos:],   gpos = pos + posShift
   plus the chunks not yet received (`pending`; [] = channel closed and drained).
   Tables (keywords, one/two-rune tokens, whitespace set) are the pinned ones of Spec/Pinned.v,
   which Proofs/TieLex.v ties to the Go source. *)
From BCL Require Export Lib.Utf8 Model.LineCalc.
Open Scope N_scope.

Inductive tok :=
| tFAIL | tEOF | tERR | tINT | tFLOAT | tSTR | tIDENT
| tVAR | tDEF | tEVAL | tPRINT | tBIND | tTRUE | tFALSE | tNIL
| tEQ | tLCURLY | tRCURLY | tLPAREN | tRPAREN
| tOR | tAND | tNOT
| tEE | tBE | tLT | tLE | tGT | tGE | tPLUS | tMINUS | tSTAR | tSLASH
| tCOLON | tARROW | tSEMICOLON.

Definition tok_num (t : tok) : N :=
  match t with
  | tFAIL => 0 | tEOF => 1 | tERR => 2 | tINT => 3 | tFLOAT => 4 | tSTR => 5 | tIDENT => 6
  | tVAR => 7 | tDEF => 8 | tEVAL => 9 | tPRINT => 10 | tBIND => 11 | tTRUE => 12 | tFALSE => 13 | tNIL => 14
  | tEQ => 15 | tLCURLY => 16 | tRCURLY => 17 | tLPAREN => 18 | tRPAREN => 19
  | tOR => 20 | tAND => 21 | tNOT => 22
  | tEE => 23 | tBE => 24 | tLT => 25 | tLE => 26 | tGT => 27 | tGE => 28
  | tPLUS => 29 | tMINUS => 30 | tSTAR => 31 | tSLASH => 32
  | tCOLON => 33 | tARROW => 34 | tSEMICOLON => 35
  end.
Definition tok_eqb (a b : tok) : bool := tok_num a =? tok_num b.

(* lexical error kinds (the text is produced by fmt in Go; only kind and position are modelled) *)
Inductive lexerr :=
| LE_expected_char (r : N)        (* "expected char %q to start token %q" *)
| LE_unknown_char (r : N)         (* "unknown char %#U" *)
| LE_invalid_syntax (s : bytes)   (* "invalid syntax `%s`" *)
| LE_dot_digits                   (* "need more digits after a dot" *)
| LE_exp_digits                   (* "need more digits for an exponent" *)
| LE_unterminated.                (* "unterminated quoted string" *)

Record token := { ttyp : tok; tval : bytes; terr : option lexerr; tpos : N }.

Record cur := {
  before : bytes;          (* input[start:pos], reversed *)
  after : bytes;           (* input[pos:] *)
  gpos : N;                (* pos + posShift *)
  width : nat;             (* width of the last rune read by next *)
  pending : list bytes;    (* chunks still to come *)
  lfs : list N;            (* line table (lineCalc.lfs), appended on every refill *)
  out : list token         (* tokens emitted so far, newest first *)
}.

Definition eof : Z := (-1)%Z.

(* the refill loop of next() *)
Fixpoint refill (pend : list bytes) (aft : bytes) (g : N) (l : list N) : list bytes * bytes * list N :=
  if full_rune aft then (pend, aft, l)
  else match pend with
       | [] => (pend, aft, l)
       | s :: more => refill more (aft ++ s) g (lc_add l s (g + nlen aft))
       end.

Fixpoint move_rev (k : nat) (from to : bytes) : bytes * bytes :=
  match k, from with
  | S k', x :: r => move_rev k' r (x :: to)
  | _, _ => (from, to)
  end.

(* next(): (rune or eof, cursor) *)
Definition next (c : cur) : Z * cur :=
  let '(pend, aft, l) := refill (pending c) (after c) (gpos c) (lfs c) in
  let '(r, w) := decode_rune aft in
  match w with
  | O => (eof, {| before := before c; after := aft; gpos := gpos c; width := 0; pending := pend; lfs := l; out := out c |})
  | _ => let '(aft', bef') := move_rev w aft (before c) in
         (Z.of_N r, {| before := bef'; after := aft'; gpos := gpos c + N.of_nat w; width := w;
                       pending := pend; lfs := l; out := out c |})
  end.

Definition backup (c : cur) : cur :=
  let '(bef', aft') := move_rev (width c) (before c) (after c) in
  {| before := bef'; after := aft'; gpos := gpos c - N.of_nat (width c); width := width c;
     pending := pending c; lfs := lfs c; out := out c |}.

Definition unbackup (c : cur) : cur :=
  let '(aft', bef') := move_rev (width c) (after c) (before c) in
  {| before := bef'; after := aft'; gpos := gpos c + N.of_nat (width c); width := width c;
     pending := pending c; lfs := lfs c; out := out c |}.

Definition peek (c : cur) : Z * cur := let '(r, c1) := next c in (r, backup c1).

Definition ignore (c : cur) : cur :=
  {| before := []; after := after c; gpos := gpos c; width := width c;
     pending := pending c; lfs := lfs c; out := out c |}.

Definition current (c : cur) : bytes := frev (before c).

Definition emit (t : tok) (c : cur) : cur :=
  {| before := []; after := after c; gpos := gpos c; width := width c; pending := pending c; lfs := lfs c;
     out := {| ttyp := t; tval := current c; terr := None; tpos := gpos c |} :: out c |}.

Definition emit_error (e : lexerr) (c : cur) : cur :=
  {| before := before c; after := after c; gpos := gpos c; width := width c; pending := pending c; lfs := lfs c;
     out := {| ttyp := tERR; tval := []; terr := Some e; tpos := gpos c |} :: out c |}.

(* fail(): tERR, ignore, tFAIL; the lexer stops *)
Definition fail (e : lexerr) (c : cur) : cur := emit tFAIL (ignore (emit_error e c)).

(* rune predicates *)
Definition zin (r : Z) (l : list N) : bool := existsb (fun x => Z.eqb r (Z.of_N x)) l.
Definition is_space (r : Z) : bool := zin r [32; 9; 11; 12; 10; 13; 133; 160].
Definition is_eol (r : Z) : bool := zin r [10; 13].
Definition is_digit_r (r : Z) : bool := ((48 <=? r) && (r <=? 57))%Z.
Definition is_alpha (r : Z) : bool := (((97 <=? r) && (r <=? 122)) || ((65 <=? r) && (r <=? 90)))%Z.
Definition is_alnum (r : Z) : bool := is_alpha r || is_digit_r r.
Definition digits_set : list N := [48; 49; 50; 51; 52; 53; 54; 55; 56; 57].
Definition hexdigits_set : list N := digits_set ++ [97; 98; 99; 100; 101; 102; 65; 66; 67; 68; 69; 70].

(* accept / acceptRun / acceptRunFunc; `fuel` bounds the loops (total input length + 2) *)
Definition accept (valid : list N) (c : cur) : bool * cur :=
  let '(r, c1) := next c in if zin r valid then (true, c1) else (false, backup c1).

Fixpoint accept_run_f (fuel : nat) (p : Z -> bool) (acc : bool) (c : cur) : bool * cur :=
  match fuel with
  | O => (acc, c)
  | S f => let '(r, c1) := next c in
           if p r then accept_run_f f p true c1 else (acc, backup c1)
  end.
Definition accept_run (fuel : nat) (valid : list N) (c : cur) : bool * cur :=
  accept_run_f fuel (fun r => zin r valid) false c.

Definition keyword_of (w : bytes) : option tok :=
  if is_lit w "var" then Some tVAR else if is_lit w "def" then Some tDEF else if is_lit w "eval" then Some tEVAL
  else if is_lit w "print" then Some tPRINT else if is_lit w "bind" then Some tBIND else if is_lit w "true" then Some tTRUE
  else if is_lit w "false" then Some tFALSE else if is_lit w "nil" then Some tNIL else if is_lit w "not" then Some tNOT
  else if is_lit w "and" then Some tAND else if is_lit w "or" then Some tOR else None.

Definition two_rune_of (r : Z) : option (Z * tok) :=
  if Z.eqb r 61 then Some (61%Z, tEE) else if Z.eqb r 33 then Some (61%Z, tBE)
  else if Z.eqb r 60 then Some (61%Z, tLE) else if Z.eqb r 62 then Some (61%Z, tGE)
  else if Z.eqb r 45 then Some (62%Z, tARROW) else None.

Definition one_rune_of (r : Z) : option tok :=
  if Z.eqb r 61 then Some tEQ else if Z.eqb r 123 then Some tLCURLY else if Z.eqb r 125 then Some tRCURLY
  else if Z.eqb r 40 then Some tLPAREN else if Z.eqb r 41 then Some tRPAREN
  else if Z.eqb r 60 then Some tLT else if Z.eqb r 62 then Some tGT
  else if Z.eqb r 43 then Some tPLUS else if Z.eqb r 45 then Some tMINUS
  else if Z.eqb r 42 then Some tSTAR else if Z.eqb r 47 then Some tSLASH
  else if Z.eqb r 58 then Some tCOLON else if Z.eqb r 59 then Some tSEMICOLON else None.

(* state functions; the result tells whether the lexer goes on (true) or has stopped *)
Definition sticky_fail (c : cur) : bool * cur :=
  let c1 := unbackup c in (false, fail (LE_invalid_syntax (current c1)) c1).

Definition lex_space (fuel : nat) (c : cur) : bool * cur :=
  let '(_, c1) := accept_run_f fuel is_space false c in (true, ignore c1).

Fixpoint lex_line_comment (fuel : nat) (c : cur) : bool * cur :=
  match fuel with
  | O => (true, c)
  | S f => let '(r, c1) := next c in
           if is_eol r || Z.eqb r eof then (true, ignore (backup c1)) else lex_line_comment f c1
  end.

Fixpoint lex_ident (fuel : nat) (c : cur) : bool * cur :=
  match fuel with
  | O => (true, c)
  | S f =>
    let '(r, c1) := next c in
    if is_alnum r || Z.eqb r 95 then lex_ident f c1
    else
      let c2 := backup c1 in
      let '(p, c3) := peek c2 in
      if Z.eqb p 34 then sticky_fail c3
      else match keyword_of (current c3) with
           | Some k => (true, emit k c3)
           | None => (true, emit tIDENT c3)
           end
  end.

Definition lex_float (fuel : nat) (c : cur) : bool * cur :=
  let '(dot, c1) := accept [46] c in
  let '(ok1, c2) := if dot then accept_run fuel digits_set c1 else (true, c1) in
  if negb ok1 then (false, fail LE_dot_digits c2) else
  let '(e, c3) := accept [101; 69] c2 in
  let '(ok2, c4) := if e then (let '(_, c') := accept [43; 45] c3 in accept_run fuel digits_set c') else (true, c3) in
  if negb ok2 then (false, fail LE_exp_digits c4) else
  let '(r, c5) := peek c4 in
  if Z.eqb r 34 || is_alpha r then sticky_fail c5 else (true, emit tFLOAT c5).

Definition lex_hex (fuel : nat) (c : cur) : bool * cur :=
  let '(_, c1) := accept_run fuel hexdigits_set c in
  let '(r, c2) := peek c1 in
  if Z.eqb r 46 || Z.eqb r 34 || is_alpha r then sticky_fail c2 else (true, emit tINT c2).

Definition lex_number (fuel : nat) (c : cur) : bool * cur :=
  let c0 := backup c in
  let '(z, c1) := accept [48] c0 in
  let '(x, c2) := if z then accept [120; 88] c1 else (false, c1) in
  if x then lex_hex fuel c2 else
  let '(_, c3) := accept_run fuel digits_set c2 in
  let '(r, c4) := peek c3 in
  if Z.eqb r 46 || Z.eqb r 101 || Z.eqb r 69 then lex_float fuel c4
  else if Z.eqb r 34 || is_alpha r then sticky_fail c4
  else (true, emit tINT c4).

Fixpoint lex_quote (fuel : nat) (c : cur) : bool * cur :=
  match fuel with
  | O => (true, c)
  | S f =>
    let '(r, c1) := next c in
    if Z.eqb r 92 then
      let '(r2, c2) := next c1 in
      if negb (Z.eqb r2 eof) && negb (Z.eqb r2 10) then lex_quote f c2
      else (false, fail LE_unterminated c2)
    else if Z.eqb r eof || Z.eqb r 10 then (false, fail LE_unterminated c1)
    else if Z.eqb r 34 then
      let '(p, c2) := peek c1 in
      if is_alnum p then sticky_fail c2 else (true, emit tSTR c2)
    else lex_quote f c1
  end.

Definition lex_start (fuel : nat) (c : cur) : bool * cur :=
  let '(r, c1) := next c in
  if Z.eqb r eof then (false, emit tEOF c1) else
  let one := one_rune_of r in
  match two_rune_of r with
  | Some (r2want, t2) =>
      let '(r2, c2) := next c1 in
      if Z.eqb r2 r2want then (true, emit t2 c2)
      else let c3 := backup c2 in
           match one with
           | Some t1 => (true, emit t1 c3)
           | None => (false, fail (LE_expected_char (Z.to_N r)) c3)
           end
  | None =>
    match one with
    | Some t1 => (true, emit t1 c1)
    | None =>
      if is_space r then lex_space fuel c1
      else if Z.eqb r 35 then lex_line_comment fuel c1
      else if Z.eqb r 34 then lex_quote fuel c1
      else if is_alpha r || Z.eqb r 95 then lex_ident fuel c1
      else if is_digit_r r then lex_number fuel c1
      else (false, fail (LE_unknown_char (Z.to_N r)) c1)
    end
  end.

Fixpoint lex_run (steps fuel : nat) (c : cur) : cur :=
  match steps with
  | O => c
  | S s => let '(go, c1) := lex_start fuel c in if go then lex_run s fuel c1 else c1
  end.

Definition total_len (chunks : list bytes) : nat := fold_left (fun a s => (a + length s)%nat) chunks 0%nat.

Definition init_cur (chunks : list bytes) : cur :=
  {| before := []; after := []; gpos := 0; width := 0; pending := chunks; lfs := []; out := [] |}.

(* the lexer over a sequence of chunks: tokens in order, and the final line table *)
Definition lex (chunks : list bytes) : list token * list N :=
  let n := S (S (total_len chunks)) in
  let c := lex_run n n (init_cur chunks) in
  (frev (out c), lfs c).

Definition tok_name (t : tok) : bytes :=
  bs match t with
  | tFAIL => "tFAIL" | tEOF => "tEOF" | tERR => "tERR" | tINT => "tINT" | tFLOAT => "tFLOAT" | tSTR => "tSTR"
  | tIDENT => "tIDENT" | tVAR => "tVAR" | tDEF => "tDEF" | tEVAL => "tEVAL" | tPRINT => "tPRINT" | tBIND => "tBIND"
  | tTRUE => "tTRUE" | tFALSE => "tFALSE" | tNIL => "tNIL" | tEQ => "tEQ" | tLCURLY => "tLCURLY"
  | tRCURLY => "tRCURLY" | tLPAREN => "tLPAREN" | tRPAREN => "tRPAREN" | tOR => "tOR" | tAND => "tAND"
  | tNOT => "tNOT" | tEE => "tEE" | tBE => "tBE" | tLT => "tLT" | tLE => "tLE" | tGT => "tGT" | tGE => "tGE"
  | tPLUS => "tPLUS" | tMINUS => "tMINUS" | tSTAR => "tSTAR" | tSLASH => "tSLASH" | tCOLON => "tCOLON"
  | tARROW => "tARROW" | tSEMICOLON => "tSEMICOLON" end.
