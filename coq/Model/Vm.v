(* Vm.v: model of machine.go / oplogic.go / value.go (after repair 5bc05e3: stack overflow, block
   stack overflow, negative repeat count and block == block are runtime errors).

   The code is walked as (pc, rest) with rest = skipn pc code.  The operand stack is a list,
   newest first, tos = its length (the Go array has 1024 slots).  Every Go panic site that
   remains is an explicit Panic: operand or constant index out of range (only reachable from
   hand-made bytecode), failed type assertions on constants, stack underflow. *)
From RecordUpdate Require Import RecordSet.
From BCL Require Export Model.Opcodes Model.Encoding Model.LineCalc Lib.Strconv.
Import RecordSetNotations.
Open Scope N_scope.

Record prog := { g_name : bytes; g_code : bytes; g_consts : list value; g_pos : list N; g_lfs : list N }.

Inductive binding := BNone | BStruct (b : value) | BSlice (bs_ : list value).

(* tagged output lines: program output vs introspection output share one writer in Go *)
Inductive otag := OPrint | OTrace | ODisasm | OStats.

Record vm := mkVm {
  pc : N; rest : bytes;
  stack : list value; tos : N;
  bstack : list value;             (* open blocks, innermost first: VBlock typ name fields *)
  btos : N;
  result : list value;             (* completed toplevel blocks, newest first *)
  bind_ : binding;
  vout : list (otag * bytes);      (* newest first *)
  vwarn : list (N * bytes);        (* warnings: (source offset, text), newest first *)
  tosMax : N; btosMax : N; opsRead : N
}.
#[export] Instance eta_vm : Settable _ := settable! mkVm
  <pc; rest; stack; tos; bstack; btos; result; bind_; vout; vwarn; tosMax; btosMax; opsRead>.

(* runtime error: position (source offset of the failing instruction) and message *)
Inductive vres :=
| VOk
| VErr (pos : N) (msg : bytes)
| VInternal (msg : bytes)          (* "internal error: non-empty stack on prog end" *)
| VPanic (k : panic_kind).

(* ---- values ---- *)
Definition vtype (v : value) : bytes :=
  match v with
  | VInt _ => bs "int" | VFloat _ => bs "float" | VStr _ => bs "string" | VBool _ => bs "bool"
  | VNil => bs "nil" | VBlock _ _ _ => bs "unknown:bcl.Block"
  end.
Definition is_int v := match v with VInt _ => true | _ => false end.
Definition is_float v := match v with VFloat _ => true | _ => false end.
Definition is_number v := is_int v || is_float v.
Definition is_string v := match v with VStr _ => true | _ => false end.
Definition is_block v := match v with VBlock _ _ _ => true | _ => false end.
Definition is_falsey (v : value) : bool :=
  match v with
  | VBool b => negb b
  | VInt z => (z =? 0)%Z
  | VFloat f => f_is_zero f
  | VStr s => match s with [] => true | _ => false end
  | VNil => true
  | VBlock _ _ _ => false
  end.

Definition wrap64 (z : Z) : Z := ((z + 2^63) mod 2^64 - 2^63)%Z.
(* Go integer division truncates toward zero; MinInt64 / -1 wraps to MinInt64 *)
Definition int_div (a b : Z) : Z := wrap64 (Z.quot a b).

(* Go's == on two interface values of non-numeric or mixed dynamic types (never two blocks) *)
Definition value_eq (a b : value) : bool :=
  match a, b with
  | VNil, VNil => true
  | VBool x, VBool y => Bool.eqb x y
  | VInt x, VInt y => (x =? y)%Z
  | VFloat x, VFloat y => f_eq x y
  | VStr x, VStr y => bytes_eqb x y
  | _, _ => false
  end.

Definition as_float (v : value) : N := match v with VFloat f => f | VInt z => f_of_int z | _ => 0 end.

(* binopNumeric *)
Definition binop_numeric (op : N) (a b : value) : value :=
  match a, b with
  | VInt x, VInt y =>
    if op =? opEQ then VBool (x =? y)%Z else if op =? opLT then VBool (x <? y)%Z
    else if op =? opGT then VBool (y <? x)%Z else if op =? opADD then VInt (wrap64 (x + y))
    else if op =? opSUB then VInt (wrap64 (x - y)) else if op =? opMUL then VInt (wrap64 (x * y))
    else if op =? opDIV then VInt (int_div x y) else VNil
  | _, _ =>
    let x := as_float a in let y := as_float b in
    if op =? opEQ then VBool (f_eq x y) else if op =? opLT then VBool (f_lt x y)
    else if op =? opGT then VBool (f_gt x y) else if op =? opADD then VFloat (f_add x y)
    else if op =? opSUB then VFloat (f_sub x y) else if op =? opMUL then VFloat (f_mul x y)
    else if op =? opDIV then VFloat (f_div x y) else VNil
  end.

(* ---- %v formatting (fmt) ---- *)
Fixpoint insert_kv (k : bytes) (v : value) (l : list (bytes * value)) : list (bytes * value) :=
  match l with
  | [] => [(k, v)]
  | (k', v') :: r => if bytes_ltb k k' then (k, v) :: l else (k', v') :: insert_kv k v r
  end.
Definition sort_fields (l : list (bytes * value)) : list (bytes * value) :=
  fold_right (fun kv acc => insert_kv (fst kv) (snd kv) acc) [] l.

Fixpoint fmt_value (fuel : nat) (v : value) : bytes :=
  match v with
  | VNil => bs "<nil>"
  | VBool b => bs (if b then "true" else "false")
  | VInt z => dec_of_Z z
  | VFloat f => f_fmt_v f
  | VStr s => s
  | VBlock t n fs =>
    match fuel with
    | O => bs "{...}"
    | S fu =>
      bs "{" ++ t ++ bs " " ++ n ++ bs " map[" ++
      join (bs " ") (map (fun kv => fst kv ++ bs ":" ++ fmt_value fu (snd kv)) (sort_fields fs)) ++ bs "]}"
    end
  end.
Definition fmt_v (v : value) : bytes := fmt_value 64 v.

(* ---- field maps: association lists with unique keys ---- *)
Fixpoint fields_get (k : bytes) (l : list (bytes * value)) : option value :=
  match l with [] => None | (k', v) :: r => if bytes_eqb k k' then Some v else fields_get k r end.
Fixpoint fields_set (k : bytes) (v : value) (l : list (bytes * value)) : list (bytes * value) :=
  match l with
  | [] => [(k, v)]
  | (k', v') :: r => if bytes_eqb k k' then (k, v) :: r else (k', v') :: fields_set k v r
  end.

Definition block_key (t n : bytes) : bytes := match n with [] => t | _ => t ++ [46] ++ n end.

(* blockGet: TYPE / NAME of the innermost block, else the nearest enclosing block having the field *)
Fixpoint block_find (k : bytes) (bs_ : list value) : option value :=
  match bs_ with
  | VBlock _ _ fs :: r => match fields_get k fs with Some v => Some v | None => block_find k r end
  | _ :: r => block_find k r
  | [] => None
  end.

(* ---- reading operands ---- *)
Definition read_uvarint (m : vm) : option (N * vm) :=
  match uv_dec (rest m) with
  | Some (x, n) => Some (x, m <| pc := pc m + N.of_nat n |> <| rest := skipn n (rest m) |>)
  | None => None
  end.
Definition read_u16 (m : vm) : option (N * vm) :=
  match rest m with
  | b0 :: b1 :: r => Some (b0 * 256 + b1, m <| pc := pc m + 2 |> <| rest := r |>)
  | _ => None
  end.
Definition read_byte (m : vm) : option (N * vm) :=
  match rest m with
  | b :: r => Some (b, m <| pc := pc m + 1 |> <| rest := r |>)
  | _ => None
  end.

Definition push (v : value) (m : vm) : vm :=
  m <| stack := v :: stack m |> <| tos := tos m + 1 |> <| tosMax := N.max (tosMax m) (tos m + 1) |>.

Definition pos_at (p : prog) (pc1 : N) : N := nth (N.to_nat (pc1 - 1)) (g_pos p) 0.
Definition rt_err (p : prog) (m : vm) (msg : bytes) : vm * vres := (m, VErr (pos_at p (pc m)) msg).
Definition vpanic (m : vm) (k : panic_kind) : vm * vres := (m, VPanic k).

Definition jump_to (p : prog) (m : vm) (target : N) : vm :=
  m <| pc := target |> <| rest := skipn (N.to_nat target) (g_code p) |>.

(* the index is compared before it is turned into a nat: a hostile operand costs nothing *)
Definition get_const (p : prog) (i : N) : option value :=
  if i <? nlen (g_consts p) then nth_opt (g_consts p) (N.to_nat i) else None.

Definition matching_blocks (ty : bytes) (res : list value) : list value :=
  filter (fun b => match b with VBlock t _ _ => bytes_eqb t ty | _ => false end) (frev res).

Definition invalid_types (op : N) (a b : value) : bytes :=
  opcode_name op ++ bs ": invalid types: " ++ vtype a ++ bs ", " ++ vtype b.

(* one instruction (the opcode byte has been read: m is positioned after it) *)
Definition exec_op (p : prog) (instr : N) (m : vm) : vm * vres :=
  if (tos m =? stackSize) &&
     ((instr =? opCONST) || (instr =? opZERO) || (instr =? opONE) || (instr =? opTRUE) || (instr =? opFALSE)
      || (instr =? opNIL) || (instr =? opGETLOCAL) || (instr =? opGETFIELD))
  then rt_err p m (bs "stack overflow")
  else if instr =? opCONST then
    match read_uvarint m with
    | Some (i, m1) => match get_const p i with Some v => (push v m1, VOk) | None => vpanic m1 PIndex end
    | None => vpanic m PIndex end
  else if instr =? opZERO then (push (VInt 0) m, VOk)
  else if instr =? opONE then (push (VInt 1) m, VOk)
  else if instr =? opTRUE then (push (VBool true) m, VOk)
  else if instr =? opFALSE then (push (VBool false) m, VOk)
  else if instr =? opNIL then (push VNil m, VOk)
  else if (instr =? opEQ) || (instr =? opLT) || (instr =? opGT) || (instr =? opADD) || (instr =? opSUB)
          || (instr =? opMUL) || (instr =? opDIV) then
    match stack m with
    | b :: a :: r =>
      let m2 := m <| stack := r |> <| tos := tos m - 2 |> in
      if is_number a && is_number b then
        if (instr =? opDIV) && match b with VInt 0 => true | _ => false end
        then rt_err p m (bs "division by int zero")
        else (push (binop_numeric instr a b) m2, VOk)
      else match a, b with
           | VStr x, VStr y =>
             if instr =? opLT then (push (VBool (bytes_ltb x y)) m2, VOk)
             else if instr =? opGT then (push (VBool (bytes_ltb y x)) m2, VOk)
             else if instr =? opADD then (push (VStr (x ++ y)) m2, VOk)
             else if instr =? opEQ then (push (VBool (bytes_eqb x y)) m2, VOk)
             else rt_err p m (invalid_types instr a b)
           | VStr x, VInt y =>
             if instr =? opADD then (push (VStr (x ++ dec_of_Z y)) m2, VOk)
             else if instr =? opMUL then
               if (y <? 0)%Z then rt_err p m (bs "MUL: negative repeat count")
               else if (1048576 <? Z.of_N (nlen x) * y)%Z then (m, VPanic PExcluded)   (* excluded: result beyond 2^20 bytes *)
               else match x with
                    | [] => (push (VStr []) m2, VOk)          (* any count of the empty string *)
                    | _ => (push (VStr (repeat_bytes (Z.to_nat y) x)) m2, VOk)
                    end
             else if instr =? opEQ then (push (VBool false) m2, VOk)
             else rt_err p m (invalid_types instr a b)
           | VStr x, VFloat y =>
             if instr =? opADD then (push (VStr (x ++ f_fmt_f y)) m2, VOk)
             else if instr =? opEQ then (push (VBool false) m2, VOk)
             else rt_err p m (invalid_types instr a b)
           | VStr x, VNil =>
             if instr =? opADD then (m <| stack := a :: r |> <| tos := tos m - 1 |>, VOk)
             else if instr =? opEQ then (push (VBool false) m2, VOk)
             else rt_err p m (invalid_types instr a b)
           | _, _ =>
             if (instr =? opEQ) && negb (is_block a && is_block b) then (push (VBool (value_eq a b)) m2, VOk)
             else rt_err p m (invalid_types instr a b)
           end
    | _ => vpanic m PIndex
    end
  else if instr =? opNEG then
    match stack m with
    | a :: r =>
      match a with
      | VInt z => (m <| stack := VInt (wrap64 (- z)) :: r |>, VOk)
      | VFloat f => (m <| stack := VFloat (f_neg f) :: r |>, VOk)
      | _ => rt_err p m (bs "NEG: invalid type: " ++ vtype a ++ bs ", expected number")
      end
    | [] => vpanic m PIndex end
  else if instr =? opUNPLUS then
    match stack m with
    | a :: _ => if is_number a then (m, VOk)
                else rt_err p m (bs "UNPLUS: invalid type: " ++ vtype a ++ bs ", expected number")
    | [] => vpanic m PIndex end
  else if instr =? opNOT then
    match stack m with
    | a :: r => (m <| stack := VBool (is_falsey a) :: r |>, VOk)
    | [] => vpanic m PIndex end
  else if instr =? opJUMP then
    match read_u16 m with
    | Some (j, m1) => (jump_to p m1 (pc m1 + j), VOk)
    | None => vpanic m PIndex end
  else if instr =? opLOOP then
    match read_u16 m with
    | Some (j, m1) => if pc m1 <? j then vpanic m1 PIndex else (jump_to p m1 (pc m1 - j), VOk)
    | None => vpanic m PIndex end
  else if instr =? opJFALSE then
    match read_u16 m with
    | Some (j, m1) =>
      match stack m1 with
      | a :: _ => if is_falsey a then (jump_to p m1 (pc m1 + j), VOk) else (m1, VOk)
      | [] => vpanic m1 PIndex end
    | None => vpanic m PIndex end
  else if instr =? opPOP then
    match stack m with
    | _ :: r => (m <| stack := r |> <| tos := tos m - 1 |>, VOk)
    | [] => vpanic m PIndex end
  else if instr =? opPOPN then
    match read_uvarint m with
    | Some (n, m1) =>
      if tos m1 <? n then vpanic m1 PIndex
      else (m1 <| stack := skipn (N.to_nat n) (stack m1) |> <| tos := tos m1 - n |>, VOk)
    | None => vpanic m PIndex end
  else if instr =? opPRINT then
    match stack m with
    | a :: r => (m <| stack := r |> <| tos := tos m - 1 |> <| vout := (OPrint, fmt_v a ++ [10]) :: vout m |>, VOk)
    | [] => vpanic m PIndex end
  else if instr =? opGETLOCAL then
    match read_uvarint m with
    | Some (slot, m1) =>
      if slot <? tos m1 then
        match nth_opt (stack m1) (N.to_nat (tos m1 - 1 - slot)) with
        | Some v => (push v m1, VOk) | None => vpanic m1 PIndex end
      else vpanic m1 PIndex            (* stale or out-of-range slot: never in compiled code *)
    | None => vpanic m PIndex end
  else if instr =? opSETLOCAL then
    match read_uvarint m with
    | Some (slot, m1) =>
      match stack m1 with
      | a :: _ => if slot <? tos m1 then
                    (m1 <| stack := set_nth (stack m1) (N.to_nat (tos m1 - 1 - slot)) a |>, VOk)
                  else vpanic m1 PIndex
      | [] => vpanic m1 PIndex end
    | None => vpanic m PIndex end
  else if instr =? opDEFBLOCK then
    match read_uvarint m with
    | Some (ti, m1) =>
      match read_uvarint m1 with
      | Some (ni, m2) =>
        match get_const p ti, get_const p ni with
        | Some (VStr t), Some (VStr n) =>
          if btos m2 =? blockStackSize then rt_err p m2 (bs "too many nested blocks")
          else (m2 <| bstack := VBlock t n [] :: bstack m2 |> <| btos := btos m2 + 1 |>
                   <| btosMax := N.max (btosMax m2) (btos m2 + 1) |>, VOk)
        | Some _, Some _ => vpanic m2 PAssert
        | _, _ => vpanic m2 PIndex
        end
      | None => vpanic m1 PIndex end
    | None => vpanic m PIndex end
  else if instr =? opENDBLOCK then
    match bstack m with
    | (VBlock t n fs as child) :: parents =>
      match parents with
      | VBlock pt pn pfs :: up =>
        let k := block_key t n in
        match fields_get k pfs with
        | Some _ => rt_err p (m <| btos := btos m - 1 |>) (bs "child " ++ k ++ bs " duplicate at parent")
        | None => (m <| bstack := VBlock pt pn (fields_set k child pfs) :: up |> <| btos := btos m - 1 |>, VOk)
        end
      | _ => (m <| bstack := [] |> <| btos := 0 |> <| result := child :: result m |>, VOk)
      end
    | _ => vpanic m PIndex
    end
  else if instr =? opGETFIELD then
    match read_uvarint m with
    | Some (i, m1) =>
      match get_const p i with
      | Some (VStr name) =>
        match bstack m1 with
        | VBlock t n _ :: _ =>
          let r := if is_lit name "TYPE" then Some (VStr t)
                   else if is_lit name "NAME" then Some (VStr n)
                   else block_find name (bstack m1) in
          match r with
          | Some v => (push v m1, VOk)
          | None => rt_err p m1 (bs "identifier '" ++ name ++ bs "' not resolved as var or field")
          end
        | _ => if is_lit name "TYPE" || is_lit name "NAME" then vpanic m1 PIndex
               else rt_err p m1 (bs "identifier '" ++ name ++ bs "' not resolved as var or field")
        end
      | Some _ => vpanic m1 PAssert
      | None => vpanic m1 PIndex end
    | None => vpanic m PIndex end
  else if instr =? opSETFIELD then
    match read_uvarint m with
    | Some (i, m1) =>
      match get_const p i with
      | Some (VStr name) =>
        match bstack m1, stack m1 with
        | VBlock t n fs :: up, a :: _ => (m1 <| bstack := VBlock t n (fields_set name a fs) :: up |>, VOk)
        | _, _ => vpanic m1 PIndex
        end
      | Some _ => vpanic m1 PAssert
      | None => vpanic m1 PIndex end
    | None => vpanic m PIndex end
  else if instr =? opBIND then
    (* the warning is issued first, at the position of the opcode byte *)
    let m0 := match bind_ m with
              | BNone => m
              | _ => m <| vwarn := (pos_at p (pc m), bs "repeated bind statement, last one overrides") :: vwarn m |>
              end in
    match read_uvarint m0 with
    | Some (i, m1) =>
      match get_const p i with
      | Some (VStr ty) =>
        match read_byte m1 with
        | Some (opt, m2) =>
          let sel := N.land opt 15 in let tgt := N.land opt 240 in
          let blocks := matching_blocks ty (result m2) in
          let n := nlen blocks in
          match blocks with
          | [] => rt_err p m2 (bs "bind: no blocks of type " ++ ty)
          | first :: _ =>
            if negb (n =? 1) && (sel =? bindOne) then
              rt_err p m2 (bs "bind: found " ++ dec_of_N n ++ bs " blocks of type " ++ ty ++ bs " but expected just 1")
            else
              let last := List.last blocks first in
              if (tgt =? bindStruct) && ((sel =? bindOne) || (sel =? bindFirst)) then (m2 <| bind_ := BStruct first |>, VOk)
              else if (tgt =? bindStruct) && (sel =? bindLast) then (m2 <| bind_ := BStruct last |>, VOk)
              else if (tgt =? bindSlice) && (sel =? bindAll) then (m2 <| bind_ := BSlice blocks |>, VOk)
              else if (tgt =? bindSlice) && ((sel =? bindOne) || (sel =? bindFirst)) then (m2 <| bind_ := BSlice [first] |>, VOk)
              else if (tgt =? bindSlice) && (sel =? bindLast) then (m2 <| bind_ := BSlice [last] |>, VOk)
              else rt_err p m2 (bs "invalid bind target and selector")
          end
        | None => vpanic m1 PIndex end
      | Some _ => vpanic m1 PAssert
      | None => vpanic m1 PIndex end
    | None => vpanic m0 PIndex end
  else (m, VOk).      (* opNOP and unknown opcodes: nothing *)

Definition init_vm (p : prog) : vm :=
  {| pc := 0; rest := g_code p; stack := []; tos := 0; bstack := []; btos := 0; result := []; bind_ := BNone;
     vout := []; vwarn := []; tosMax := 0; btosMax := 0; opsRead := 0 |}.

(* the trace hook is supplied by Disasm.v; run is generic in it *)
Fixpoint run_fuel (fuel : nat) (p : prog) (trace : vm -> list (otag * bytes)) (m : vm) : vm * vres :=
  match fuel with
  | O => (m, VPanic POutOfFuel)
  | S f =>
    let m0 := m <| vout := trace m ++ vout m |> in
    match rest m0 with
    | [] => vpanic m0 PIndex                     (* pc ran off the code *)
    | instr :: r =>
      let m1 := m0 <| pc := pc m0 + 1 |> <| rest := r |> <| opsRead := opsRead m0 + 1 |> in
      if instr =? opRET then
        if tos m1 =? 0 then (m1, VOk)
        else (m1, VInternal (bs "internal error: non-empty stack on prog end; tos=" ++ dec_of_N (tos m1)))
      else
        match exec_op p instr m1 with
        | (m2, VOk) => run_fuel f p trace m2
        | other => other
        end
    end
  end.

(* compiled code has no backward jump: every step advances pc, so |code|+1 steps suffice;
   hand-made code with LOOP gets a generous bound and is reported as out of fuel beyond it *)
Definition run_bound (p : prog) : nat := (2 * length (g_code p) + 16)%nat.
