(* Cli.v: model of cmd/bcl/args.go parseArgs (flag loop, clustering, --bdump/--bload file name
   derivation) and of the exit-status rule of main.go. *)
From BCL Require Export Lib.Base.
Open Scope N_scope.

Record pargs := mkArgs {
  a_file : bytes; a_disasm : bool; a_trace : bool; a_result : bool; a_stats : bool;
  a_bdump : bool; a_bload : bool; a_bdumpFile : bytes; a_bloadFile : bytes; a_help : bool
}.
Definition args0 : pargs := mkArgs [] false false false false false false [] [] false.

Inductive usage_err := UUnknownFlag (arg : bytes) | UTooMany | UBdumpName | UConflict.

Fixpoint has_prefix (p s : bytes) : option bytes :=
  match p, s with
  | [], _ => Some s
  | a :: p', b :: s' => if a =? b then has_prefix p' s' else None
  | _ :: _, [] => None
  end.
Definition has_suffix (suf s : bytes) : bool :=
  match has_prefix (rev suf) (rev s) with Some _ => true | None => false end.
Definition is_lower (c : N) : bool := (97 <=? c) && (c <=? 122).

Definition set_d a := mkArgs (a_file a) true (a_trace a) (a_result a) (a_stats a) (a_bdump a) (a_bload a) (a_bdumpFile a) (a_bloadFile a) (a_help a).
Definition set_t a := mkArgs (a_file a) (a_disasm a) true (a_result a) (a_stats a) (a_bdump a) (a_bload a) (a_bdumpFile a) (a_bloadFile a) (a_help a).
Definition set_r a := mkArgs (a_file a) (a_disasm a) (a_trace a) true (a_stats a) (a_bdump a) (a_bload a) (a_bdumpFile a) (a_bloadFile a) (a_help a).
Definition set_s a := mkArgs (a_file a) (a_disasm a) (a_trace a) (a_result a) true (a_bdump a) (a_bload a) (a_bdumpFile a) (a_bloadFile a) (a_help a).
Definition set_help a := mkArgs (a_file a) (a_disasm a) (a_trace a) (a_result a) (a_stats a) (a_bdump a) (a_bload a) (a_bdumpFile a) (a_bloadFile a) true.
Definition set_bdump a (f : option bytes) :=
  mkArgs (a_file a) (a_disasm a) (a_trace a) (a_result a) (a_stats a) true (a_bload a)
         (match f with Some x => x | None => a_bdumpFile a end) (a_bloadFile a) (a_help a).
Definition set_bload a (f : option bytes) :=
  mkArgs (a_file a) (a_disasm a) (a_trace a) (a_result a) (a_stats a) (a_bdump a) true (a_bdumpFile a)
         (match f with Some x => x | None => a_bloadFile a end) (a_help a).
Definition set_file a f := mkArgs f (a_disasm a) (a_trace a) (a_result a) (a_stats a) (a_bdump a) (a_bload a) (a_bdumpFile a) (a_bloadFile a) (a_help a).
Definition set_files a f bd := mkArgs f (a_disasm a) (a_trace a) (a_result a) (a_stats a) (a_bdump a) (a_bload a) bd (a_bloadFile a) (a_help a).

(* --bdump / --bload: Some None = bare flag, Some (Some f) = with =f, None = malformed *)
Definition opt_file (rest : bytes) : option (option bytes) :=
  match rest with
  | [] => Some None
  | 61 :: f => Some (Some f)
  | _ => None
  end.

(* the flag loop; a cluster "-dts" is expanded in place, so recursion is on fuel *)
Fixpoint flags_loop (fuel : nat) (args : list bytes) (a : pargs) (rest : list bytes)
  : usage_err + (pargs * list bytes) :=
  match fuel with
  | O => inr (a, rest)
  | S f =>
    match args with
    | [] => inr (a, rest)
    | arg :: more =>
      if is_lit arg "-h" then inr (set_help a, rest)
      else if is_lit arg "-d" || is_lit arg "--disasm" then flags_loop f more (set_d a) rest
      else if is_lit arg "-t" || is_lit arg "--trace" then flags_loop f more (set_t a) rest
      else if is_lit arg "-r" || is_lit arg "--result" then flags_loop f more (set_r a) rest
      else if is_lit arg "-s" || is_lit arg "--stats" then flags_loop f more (set_s a) rest
      else match has_prefix (bs "--bdump") arg with
      | Some r => match opt_file r with
                  | Some o => flags_loop f more (set_bdump a o) rest
                  | None => inl (UUnknownFlag arg) end
      | None =>
      match has_prefix (bs "--bload") arg with
      | Some r => match opt_file r with
                  | Some o => flags_loop f more (set_bload a o) rest
                  | None => inl (UUnknownFlag arg) end
      | None =>
        if is_lit arg "--" then inr (a, rest ++ more)
        else match arg with
             | 45 :: c1 :: c2 :: cs =>                       (* len > 2 and starts with '-' : a cluster *)
               if forallb is_lower (c1 :: c2 :: cs)
               then flags_loop f (map (fun c => [45; c]) (c1 :: c2 :: cs) ++ more) a rest
               else inl (UUnknownFlag arg)
             | 45 :: _ :: [] => inl (UUnknownFlag arg)        (* "-x" for an unknown letter *)
             | _ => flags_loop f more a (rest ++ [arg])
             end
      end end
    end
  end.

Definition parse_args (args : list bytes) : usage_err + pargs :=
  let fuel := (length args + fold_left (fun n s => n + length s)%nat args 0 + 1)%nat in
  match flags_loop fuel args args0 [] with
  | inl e => inl e
  | inr (a, rest) =>
    if a_help a then inr a else
    match (match rest with [] => inr a | [f] => inr (set_file a f) | _ => inl UTooMany end) with
    | inl e => inl e
    | inr a1 =>
      let a2r :=
        if a_bdump a1 && match a_bdumpFile a1 with [] => true | _ => false end then
          if has_suffix (bs ".bcl") (a_file a1)
          then inr (set_files a1 (a_file a1) (firstn (length (a_file a1) - 4) (a_file a1) ++ bs ".bcb"))
          else inl UBdumpName
        else inr a1 in
      match a2r with
      | inl e => inl e
      | inr a2 =>
        let nofile := match a_file a2 with [] => true | _ => false end in
        let nobload := match a_bloadFile a2 with [] => true | _ => false end in
        let a3r := if a_bload a2 then
                     if nofile && nobload then inr a2
                     else if negb nofile && negb nobload then inl UConflict
                     else if nofile then inr (set_file a2 (a_bloadFile a2)) else inr a2
                   else inr a2 in
        match a3r with
        | inl e => inl e
        | inr a3 => inr (match a_file a3 with [] => set_file a3 [45] | _ => a3 end)
        end
      end
    end
  end.

(* exit status: usage error 2, run error (open / parse / runtime / dump) 1, else 0 *)
Definition exit_status (usage_error run_error : bool) : N := if usage_error then 2 else if run_error then 1 else 0.
