(* LineCalc.v: model of linecalc.go.  sort.SearchInts enters by its documented contract:
   on a sorted slice, the smallest index i with a[i] >= x (len if none). *)
From BCL Require Export Lib.Base.
Open Scope N_scope.

(* lineCalc.add: offsets of the newline bytes of s, s starting at global offset prefix *)
Fixpoint newlines_at (s : bytes) (off : N) : list N :=
  match s with
  | [] => []
  | c :: r => if c =? 10 then off :: newlines_at r (off + 1) else newlines_at r (off + 1)
  end.
Definition lc_add (lfs : list N) (s : bytes) (prefix : N) : list N := lfs ++ newlines_at s prefix.

Fixpoint search_ints (l : list N) (x : N) : nat :=
  match l with
  | [] => 0%nat
  | a :: r => if x <=? a then 0%nat else S (search_ints r x)
  end.

(* lineColAt, with its case split as written *)
Definition line_col_at (lfs : list N) (pos : N) : N * Z :=
  let j := search_ints lfs pos in
  if (j =? length lfs)%nat then
    if (j =? 0)%nat then (1, (Z.of_N pos + 1)%Z)
    else (N.of_nat j + 1, (Z.of_N pos - Z.of_N (nth (j - 1) lfs 0%N))%Z)
  else
    let prevpos := if (0 <? j)%nat then Z.of_N (nth (j - 1) lfs 0%N) else (-1)%Z in
    (N.of_nat j + 1, (Z.of_N pos - prevpos)%Z).

Definition lc_format (lfs : list N) (pos : N) : bytes :=
  let '(l, c) := line_col_at lfs pos in dec_of_N l ++ [58] ++ dec_of_Z c.
