(* Reflect.v: model of reflect.go / bind.go -- Bind(target, binding), after the repairs 9339403
   (no panics on nil values / non-struct destinations / promoted fields, sorted key order, two keys
   onto one field is an error) and 3214bdc (underscores ignored on both sides).

   Go types and values are a small universe: the kinds Bind distinguishes, struct types with
   field name / exportedness / embedding / `bcl` tag, pointers, slices, interfaces.  The parts of
   package reflect that are used (FieldByNameFunc's breadth-first search with annihilation of
   ambiguous matches, AssignableTo on the dynamic types of BCL values, FieldByIndexErr, CanSet)
   are modelled from the Go documentation and source and validated by the suite `bindtargets`. *)
From BCL Require Export Model.Value.
Open Scope N_scope.

Inductive gotype :=
| TInt | TFloat64 | TString | TBool
| TOther (k : N)                    (* any other kind nothing from BCL is assignable to: int8.., uint.., float32, func, chan, map, array ... *)
| TIface (empty : bool)             (* interface{} accepts everything; a non-empty interface accepts no BCL value *)
| TPtr (t : gotype)
| TSlice (t : gotype)
| TStruct (tname : bytes) (fs : list field)     (* tname = [] for unnamed struct types *)
with field := Field (fname : bytes) (exported embedded : bool) (tag : bytes) (ft : gotype).

Definition fname_ (f : field) := match f with Field n _ _ _ _ => n end.
Definition fexp (f : field) := match f with Field _ e _ _ _ => e end.
Definition femb (f : field) := match f with Field _ _ e _ _ => e end.
Definition ftag (f : field) := match f with Field _ _ _ t _ => t end.
Definition ftyp (f : field) := match f with Field _ _ _ _ t => t end.

(* target values: only what Bind can change or must preserve is represented *)
Inductive goval :=
| GZero                            (* the zero value / untouched previous content of a non-composite *)
| GPrev (id : N)                   (* some previous non-zero content, opaque *)
| GVal (v : value)                 (* a BCL value stored by Bind (in a field of its own type or in interface{}) *)
| GStruct (l : list goval)         (* one entry per field *)
| GSlice (l : list goval)
| GPtrNil
| GPtrTo (v : goval).

Inductive target :=
| TgtNilIface                              (* Bind(nil, ...) *)
| TgtValue (t : gotype) (v : goval)        (* a non-pointer passed by value *)
| TgtNilPtr (t : gotype)                   (* a typed nil pointer *)
| TgtPtr (t : gotype) (v : goval).         (* pointer to a T holding v *)

Inductive bindarg := BdNone | BdStruct (b : value) | BdSlice (bs_ : list value) | BdUnknown.

(* error kinds, in the order the Go code can produce them *)
Inductive berr :=
| ENoBinding | ENotPointer | ENotStruct | ENotSlice | EElemNotStruct | EUnknownBinding
| EBlockNotStruct | ETypeName | EMapping | EUnexported | ENilValue | EDupField | ENilEmbedded | ECannotSet
| ETypeMismatch | EBadBlockValue.

Inductive bres := BOk (v : goval) | BErr (e : berr) | BPanic.

(* ---- strings: EqualFold on ASCII + underscore removal (unsnakeMatcher) ---- *)
Definition lower (c : N) : N := if (65 <=? c) && (c <=? 90) then c + 32 else c.
Definition strip_us (s : bytes) : bytes := filter (fun c => negb (c =? 95)) s.
Definition fold_eq (a b : bytes) : bool := bytes_eqb (map lower a) (map lower b).
(* non-ASCII: strings.EqualFold also folds Unicode letters; names with bytes >= 128 are matched
   bytewise here and are excluded from the generated family *)
Definition unsnake_eq (orig snake : bytes) : bool := fold_eq (strip_us orig) (strip_us snake).

Fixpoint cut_dot (s : bytes) : bytes :=
  match s with [] => [] | c :: r => if c =? 46 then [] else c :: cut_dot r end.

(* ---- FieldByNameFunc: breadth first through embedded structs, ambiguity = no match ---- *)
Definition struct_fields (t : gotype) : option (list field) :=
  match t with
  | TStruct _ fs => Some fs
  | TPtr (TStruct _ fs) => Some fs
  | _ => None
  end.

(* one level: `level` is a list of (index path so far, fields of a struct at this depth).
   returns the matches at this depth and the next level *)
Fixpoint scan_fields (m : bytes -> bool) (path : list nat) (fs : list field) (i : nat)
  : list (list nat * field) * list (list nat * list field) :=
  match fs with
  | [] => ([], [])
  | f :: r =>
    let '(ms, nx) := scan_fields m path r (S i) in
    let here := path ++ [i] in
    if m (fname_ f) then ((here, f) :: ms, nx)
    else if femb f then
      match struct_fields (ftyp f) with
      | Some sub => (ms, (here, sub) :: nx)
      | None => (ms, nx)
      end
    else (ms, nx)
  end.

Fixpoint bfs (fuel : nat) (m : bytes -> bool) (level : list (list nat * list field)) : option (list nat * field) :=
  match fuel with
  | O => None
  | S f =>
    match level with
    | [] => None
    | _ =>
      let res := map (fun pf => scan_fields m (fst pf) (snd pf) 0) level in
      let ms := flat_map fst res in
      let nx := flat_map snd res in
      match ms with
      | [one] => Some one
      | [] => bfs f m nx
      | _ => None                       (* several at the shallowest depth: they cancel *)
      end
    end
  end.

Definition field_by_name_func (fs : list field) (m : bytes -> bool) : option (list nat * field) :=
  bfs 16 m [([], fs)].

(* tagged: last field with a given non-empty tag wins *)
Fixpoint tagged_lookup (fs : list field) (i : nat) (name : bytes) (acc : option (list nat * field))
  : option (list nat * field) :=
  match fs with
  | [] => acc
  | f :: r => tagged_lookup r (S i) name
                (if negb (match ftag f with [] => true | _ => false end) && bytes_eqb (ftag f) name
                 then Some ([i], f) else acc)
  end.
Definition has_tags (fs : list field) : bool :=
  existsb (fun f => negb (match ftag f with [] => true | _ => false end)) fs.

(* ---- assignability of a BCL value's dynamic type to a field type ---- *)
Definition assignable (x : value) (t : gotype) : bool :=
  match t with
  | TIface true => true
  | TInt => match x with VInt _ => true | _ => false end
  | TFloat64 => match x with VFloat _ => true | _ => false end
  | TString => match x with VStr _ => true | _ => false end
  | TBool => match x with VBool _ => true | _ => false end
  | _ => false
  end.

(* ---- walking the value along an index path ---- *)
Fixpoint nth_set (l : list goval) (i : nat) (v : goval) : list goval :=
  match l, i with
  | [], _ => []
  | _ :: r, O => v :: r
  | x :: r, S i' => x :: nth_set r i' v
  end.
Definition zero_struct (fs : list field) : goval := GStruct (map (fun _ => GZero) fs).
Definition as_struct (v : goval) (fs : list field) : list goval :=
  match v with GStruct l => l | _ => map (fun _ => GZero) fs end.

(* update the value at `path` inside a struct value; the callback produces the new field value or an error *)
Fixpoint update_path (fuel : nat) (t : gotype) (v : goval) (path : list nat) (f : gotype -> goval -> bres) : bres :=
  match fuel with
  | O => BPanic
  | S fu =>
    match path with
    | [] => f t v
    | i :: rest =>
      match t with
      | TStruct _ fs =>
        let l := as_struct v fs in
        match nth_error fs i with
        | Some fld =>
          match update_path fu (ftyp fld) (nth i l GZero) rest f with
          | BOk v' => BOk (GStruct (nth_set l i v'))
          | other => other
          end
        | None => BPanic
        end
      | TPtr (TStruct n fs) =>
        match v with
        | GPtrTo inner =>
          match update_path fu (TStruct n fs) inner path f with
          | BOk v' => BOk (GPtrTo v') | other => other end
        | _ => BErr ENilEmbedded           (* indirection through nil pointer to embedded struct *)
        end
      | _ => BPanic
      end
    end
  end.

Fixpoint insert_key (k : bytes) (v : value) (l : list (bytes * value)) : list (bytes * value) :=
  match l with
  | [] => [(k, v)]
  | (k', v') :: r => if bytes_ltb k k' then (k, v) :: l else (k', v') :: insert_key k v r
  end.
Definition sorted_fields (l : list (bytes * value)) : list (bytes * value) :=
  fold_right (fun kv acc => insert_key (fst kv) (snd kv) acc) [] l.

(* two index paths address overlapping storage: one is a prefix of the other (equal paths included) *)
Fixpoint path_overlap (a b : list nat) : bool :=
  match a, b with
  | x :: a', y :: b' => Nat.eqb x y && path_overlap a' b'
  | _, _ => true
  end.

Definition is_empty (s : bytes) : bool := match s with [] => true | _ => false end.

(* field lookup of setField: tag first (only when the struct has tags at all), then by name *)
Definition find_field (fs : list field) (name : bytes) : option (list nat * field) :=
  match (if has_tags fs then tagged_lookup fs 0 name None else None) with
  | Some pf => Some pf
  | None => field_by_name_func fs (fun s => unsnake_eq s (cut_dot name))
  end.

(* copyBlock; the fields are visited in the order `order` gives (sorted keys in the repaired code).
   state threaded through the fields: current struct value and the index paths already used *)
Fixpoint copy_block (fuel : nat) (order : list (bytes * value) -> list (bytes * value))
                    (t : gotype) (v : goval) (blk : value) : bres :=
  match fuel with
  | O => BPanic
  | S fu =>
    match blk, t with
    | VBlock btype bname bfields, TStruct tname fs =>
      if negb (is_empty tname) && negb (unsnake_eq tname btype) then BErr ETypeName
      else
        let set_field (name : bytes) (x : value) (optional : bool) (st : goval * list (list nat))
            : berr + bool + (goval * list (list nat)) :=      (* inl (inl e) error | inl (inr _) panic | inr state *)
          match find_field fs name with
          | None => inl (inl EMapping)
          | Some (path, fld) =>
            if negb (fexp fld) then inl (inl EUnexported)
            else match x with
                 | VNil => inl (inl ENilValue)
                 | _ =>
                   if negb optional && existsb (path_overlap path) (snd st) then inl (inl EDupField)
                   else
                     let used' := if optional then snd st else path :: snd st in
                     match update_path (2 * length path + 2) (TStruct tname fs) (fst st) path
                             (fun ft fv =>
                                match x with
                                | VBlock _ _ _ => copy_block fu order ft fv x
                                | _ => if assignable x ft then BOk (GVal x) else BErr ETypeMismatch
                                end) with
                     | BOk cur' => inr (cur', used')
                     | BErr e => inl (inl e)
                     | BPanic => inl (inr true)
                     end
                 end
          end in
        let fix fields_loop (kvs : list (bytes * value)) (st : goval * list (list nat)) : bres :=
          match kvs with
          | [] => BOk (fst st)
          | (k, x) :: more =>
            match set_field k x false st with
            | inr st' => fields_loop more st'
            | inl (inl e) => BErr e
            | inl (inr _) => BPanic
            end
          end in
        let st0 := (GStruct (as_struct v fs), []) in
        match set_field (bs "Name") (VStr bname) (is_empty bname) st0 with
        | inr st1 => fields_loop (order bfields) st1
        | inl (inl EMapping) => if is_empty bname then fields_loop (order bfields) st0 else BErr EMapping
        | inl (inl e) => BErr e
        | inl (inr _) => BPanic
        end
    | VBlock _ _ _, _ => BErr EBlockNotStruct
    | _, _ => BErr EBadBlockValue
    end
  end.

Definition copy_blocks (order : list (bytes * value) -> list (bytes * value)) (tg : target) (b : bindarg) : bres :=
  match b with
  | BdNone => BErr ENoBinding
  | _ =>
    let nilptr := match b with
                  | BdStruct _ => BErr ENotStruct            (* Elem of a nil pointer: invalid kind *)
                  | BdSlice _ => BErr ENotSlice
                  | _ => BErr EUnknownBinding
                  end in
    match tg with
    | TgtNilIface => BErr ENotPointer
    | TgtValue (TPtr _) _ => nilptr              (* a value of pointer type passed as such: here always its zero value, nil *)
    | TgtValue _ _ => BErr ENotPointer
    | TgtNilPtr _ => nilptr
    | TgtPtr t v =>
      match b with
      | BdStruct blk =>
        match t with
        | TStruct _ _ => match copy_block 64 order t v blk with BOk v' => BOk (GPtrTo v') | o => o end
        | _ => BErr ENotStruct
        end
      | BdSlice blks =>
        match t with
        | TSlice et =>
          match et with
          | TStruct _ efs =>
            let fix elems (l : list value) : bres :=
              match l with
              | [] => BOk (GSlice [])
              | blk :: more =>
                match copy_block 64 order et (zero_struct efs) blk with
                | BOk e => match elems more with BOk (GSlice es) => BOk (GSlice (e :: es)) | o => o end
                | o => o
                end
              end in
            match elems blks with BOk sl => BOk (GPtrTo sl) | o => o end
          | _ => BErr EElemNotStruct
          end
        | _ => BErr ENotSlice
        end
      | BdUnknown => BErr EUnknownBinding
      | BdNone => BErr ENoBinding
      end
    end
  end.

(* the repaired code sorts the keys *)
Definition bind (tg : target) (b : bindarg) : bres := copy_blocks sorted_fields tg b.
