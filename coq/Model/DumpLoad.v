(* DumpLoad.v: model of prog.go Dump / Load (format version 1.1), after the repairs
   recorded in known_findings.txt (scratch buffer 1+9+len, ReadFull for header, name and
   string payloads, short-read checks). *)
From BCL Require Export Model.Encoding Model.Bufio.
Open Scope N_scope.

Record parts := { p_name : bytes; p_code : bytes; p_consts : list value;
                  p_pos : list N; p_lfs : list N }.

Definition magic : bytes := [252; 108].     (* "\xFC\x6C" *)
Definition major : N := 1.
Definition minor : N := 1.
Definition scratch0 : N := 96.

(* the constants loop of Dump, tracking the scratch buffer length as the Go code does *)
Fixpoint dump_consts (plen : N) (vs : list value) : outcome bytes :=
  match vs with
  | [] => Ok []
  | v :: more =>
      let plen' := match v with
                   | VStr s => if plen <? 1 + 9 + nlen s then 1 + 9 + nlen s else plen
                   | _ => plen end in
      do b <- value_enc plen' v ;;
      do r <- dump_consts plen' more ;;
      Ok (b ++ r)
  end.

Definition dump (p : parts) : outcome bytes :=
  do cs <- dump_consts scratch0 (p_consts p) ;;
  Ok (magic ++ [major; minor]
      ++ uv_enc (nlen (p_name p)) ++ p_name p
      ++ uv_enc (nlen (p_code p)) ++ p_code p
      ++ uv_enc (nlen (p_consts p)) ++ cs
      ++ uv_enc (nlen (p_pos p)) ++ flat_map uv_enc (p_pos p)
      ++ uv_enc (nlen (p_lfs p)) ++ flat_map uv_enc (p_lfs p)).

Section Load.
Context {R : Type} (ops : rops R).

Definition lbl (s : string) : bytes := bs s.
Arguments lbl s%string.

(* uvarintFromBuf *)
Definition uvarint_from_buf (r : R) : outcome (N * R) :=
  let '(p, r1) := r_peek ops 9 r in
  if (length p <? uv_size p)%nat then Err (lbl "eof")
  else match uv_dec p with
       | Some (x, n) => let '(_, r2) := r_discard ops (N.of_nat n) r1 in Ok (x, r2)
       | None => Panic PIndex
       end.

(* valueFromBuf *)
Definition value_from_buf (r : R) : outcome (value * R) :=
  let '(b, r1) := r_readfull ops 1 r in
  match b with
  | [] => Err (lbl "eof")
  | c :: _ =>
    if c =? 1 then
      let '(p, r2) := r_peek ops 9 r1 in
      if (length p <? uv_size p)%nat then Err (lbl "eof")
      else match uv_dec p with
           | Some (x, n) => let '(_, r3) := r_discard ops (N.of_nat n) r2 in
                            Ok (VInt (u64_to_i64 x), r3)
           | None => Panic PIndex end
    else if c =? 2 then
      let '(p, r2) := r_peek ops 8 r1 in
      if (length p <? 8)%nat then Err (lbl "eof")
      else let '(_, r3) := r_discard ops (nlen p) r2 in Ok (VFloat (from_be p), r3)
    else if c =? 3 then
      let '(p, r2) := r_peek ops 9 r1 in
      if (length p <? uv_size p)%nat then Err (lbl "eof")
      else match uv_dec p with
           | Some (k, i) =>
               let '(_, r3) := r_discard ops (N.of_nat i) r2 in
               let '(s, r4) := r_readfull ops k r3 in
               if nlen s <? k then Err (lbl "eof") else Ok (VStr s, r4)
           | None => Panic PIndex end
    else if c =? 4 then
      let '(b2, r2) := r_readfull ops 1 r1 in
      match b2 with
      | [] => Err (lbl "eof")
      | x :: _ => Ok (VBool (negb (x =? 0)), r2)
      end
    else if c =? 0 then Ok (VNil, r1)
    else Panic PInvalidType
  end.

(* "for i := 0; i < m; i++ { x, err := f(r) ... }"; every successful f consumes a byte, so
   fuel = bytes left + 1 can only run out when m exceeds what is left, which is an error
   anyway; the exhausted case is reported as the section's error *)
Fixpoint read_n {A} (fuel : nat) (f : R -> outcome (A * R)) (m : N) (r : R) (label : bytes)
  : outcome (list A * R) :=
  if m =? 0 then Ok ([], r)
  else match fuel with
       | O => Err label
       | S fu =>
           match f r with
           | Ok (x, r1) =>
               do '(xs, r2) <- read_n fu f (m - 1) r1 label ;; Ok (x :: xs, r2)
           | Err _ => Err label
           | Panic k => Panic k
           end
       end.

Definition sect {A} (label : string) (o : outcome A) : outcome A :=
  match o with Err _ => Err (lbl label) | x => x end.

(* load_r also returns the reader after the last section, for the proofs *)
Definition load_r (r : R) : outcome (parts * R) :=
  let '(m1, r) := r_readfull ops 2 r in
  if (length m1 <? 2)%nat then Err (lbl "missing magic header") else
  if negb (bytes_eqb m1 magic) then Err (lbl "invalid magic header") else
  let '(v, r) := r_readfull ops 2 r in
  match v with
  | [vmaj; vmin] =>
    if negb (vmaj =? major) then Err (lbl "invalid bcode major version") else
    if minor <? vmin then Err (lbl "invalid bcode minor version") else
    do '(m, r) <- sect "name size" (uvarint_from_buf r) ;;
    let '(name, r) := r_readfull ops m r in
    if nlen name <? m then Err (lbl "name too short") else
    do '(m, r) <- sect "code size" (uvarint_from_buf r) ;;
    let '(code, r) := r_readfull ops m r in
    if nlen code <? m then Err (lbl "code too short") else
    do '(m, r) <- sect "constants size" (uvarint_from_buf r) ;;
    do '(consts, r) <- read_n (S (r_left ops r)) value_from_buf m r (lbl "constant") ;;
    do '(m, r) <- sect "positions size" (uvarint_from_buf r) ;;
    do '(pos, r) <- read_n (S (r_left ops r)) uvarint_from_buf m r (lbl "position") ;;
    do '(m, r) <- sect "lfs size" (uvarint_from_buf r) ;;
    do '(lfs, r) <- read_n (S (r_left ops r)) uvarint_from_buf m r (lbl "lfs") ;;
    (* trailing Read: io.EOF -> nil; a further byte is read with a nil error -> nil as well *)
    Ok ({| p_name := name; p_code := code; p_consts := consts; p_pos := pos; p_lfs := lfs |}, r)
  | _ => Err (lbl "missing bcode major/minor version")
  end.
Definition load (r : R) : outcome parts := do '(p, _) <- load_r r ;; Ok p.
End Load.

Definition load_bytes (b : bytes) : outcome parts := load aops b.
Definition load_chunks (cs : list bytes) : outcome parts := load cops {| bbuf := []; bsrc := cs |}.
