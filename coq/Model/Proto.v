(* Proto.v: the goroutine protocol of ParseFile (api.go:48-93) with the channel behaviour of the
   lexer (lex.go run/emit/next) and of the parser (parse.go advance, api.go's second goroutine),
   as a small-step transition system.  After the repair 44cc475 (an empty chunk is not the end of
   input) and 6488c17 (mutex around the line table).

   Processes: reader R, lexer L, parser P, caller C.  Channels: inpc (unbuffered), tokens
   (buffer of 10), rerr, perr (unbuffered), done (closed at most once).  Shared locations: the
   line table (guarded by a mutex: L appends on every received chunk, P reads for a diagnostic)
   and `prog` (written by P before it sends on perr, read by C after it received from perr).

   What the data-level lexer and parser do is abstracted by an oracle:
     lplan   : for the i-th chunk the lexer receives, how many tokens it emits while scanning
               it and whether it then fails (tERR, tFAIL) -- otherwise it asks for more input;
     lfinal  : tokens emitted after the input channel was closed, before tEOF;
     psyntax : whether the parser reports a syntax error of its own;
     pdiags  : how many diagnostics the parser formats (line-table reads) in total.
   Facts about the real lexer/parser that constrain the oracle (proved on Model/Lexer.v and
   Model/Parser.v, see Proofs): tEOF is emitted only after the input channel was closed; after
   tFAIL or tEOF the lexer emits nothing more and closes `tokens`; the parser keeps receiving until
   `tokens` is closed; a lexical failure makes the parse fail. *)
From BCL Require Export Lib.Base.
Open Scope nat_scope.

Inductive rd :=            (* result of one f.Read *)
| RdData                   (* n > 0 bytes, nil error *)
| RdZero                   (* 0 bytes, nil error *)
| RdDataEOF                (* n > 0 bytes together with io.EOF *)
| RdEOF                    (* 0, io.EOF *)
| RdErr.                   (* any other error *)

Inductive err := ENone | ERead | EParse.

Inductive rpc :=
| R_read                           (* about to call f.Read *)
| R_select                         (* select { inpc <- chunk ; <-done } *)
| R_rerr (v : err) (close_inpc : bool)   (* rerr <- v, then break (close inpc) or return *)
| R_closeinpc | R_closefile | R_done.

Inductive lpc :=
| L_need                           (* s, ok := <-l.inputs *)
| L_lock (fin : bool)              (* lineCalc.add: take the mutex (fin = channel was closed: no add) *)
| L_unlock
| L_emit (n : nat) (fail : bool)   (* n tokens still to send for this chunk, then fail or need more *)
| L_final (n : nat) (what : bool)  (* n tokens, then tEOF (what = false) / tERR,tFAIL (true) *)
| L_close | L_done.

Inductive ppc :=
| P_recv                           (* <-l.tokens *)
| P_lock | P_unlock                (* formatting a diagnostic: lineColAt under the mutex *)
| P_closedone | P_setprog | P_perr | P_done.

Inductive cpc := C_rerr | C_perr | C_readprog | C_ret.

Inductive proc := PR | PL | PP | PC.

Record st := mkSt {
  script : list rd;           (* reads still to come; afterwards RdEOF for ever *)
  r : rpc; l : lpc; p : ppc; c : cpc;
  lplan : list (nat * bool); lfinal : nat; psyntax : bool; pdiags : nat;
  inpc_closed : bool; tokens : nat; tokens_closed : bool; done_closed : bool;
  lfailed : bool;             (* the lexer has emitted tFAIL *)
  saw_end : bool;             (* the parser has received tEOF / tFAIL *)
  end_queued : nat;           (* position from the back of the end marker in the token buffer: 0 = none *)
  mu : option proc;           (* holder of the line-table mutex *)
  prog_set : bool;
  reads : nat; closes : nat; reads_after_fail : nat;
  got_rerr : option err; got_perr : option err;
  prog_seen : option bool     (* what C found in `prog` when it read it: Some true = set *)
}.

Definition tokens_cap := 10.

Definition init (sc : list rd) (plan : list (nat * bool)) (fin : nat) (syn : bool) (nd : nat) : st :=
  {| script := sc; r := R_read; l := L_need; p := P_recv; c := C_rerr;
     lplan := plan; lfinal := fin; psyntax := syn; pdiags := nd;
     inpc_closed := false; tokens := 0; tokens_closed := false; done_closed := false;
     lfailed := false; saw_end := false; end_queued := 0; mu := None; prog_set := false;
     reads := 0; closes := 0; reads_after_fail := 0; got_rerr := None; got_perr := None; prog_seen := None |}.

(* functional record update helpers *)
Definition upd_r (s : st) (x : rpc) : st :=
  mkSt (script s) x (l s) (p s) (c s) (lplan s) (lfinal s) (psyntax s) (pdiags s) (inpc_closed s) (tokens s)
       (tokens_closed s) (done_closed s) (lfailed s) (saw_end s) (end_queued s) (mu s) (prog_set s) (reads s) (closes s)
       (reads_after_fail s) (got_rerr s) (got_perr s) (prog_seen s).
Definition upd_l (s : st) (x : lpc) : st :=
  mkSt (script s) (r s) x (p s) (c s) (lplan s) (lfinal s) (psyntax s) (pdiags s) (inpc_closed s) (tokens s)
       (tokens_closed s) (done_closed s) (lfailed s) (saw_end s) (end_queued s) (mu s) (prog_set s) (reads s) (closes s)
       (reads_after_fail s) (got_rerr s) (got_perr s) (prog_seen s).
Definition upd_p (s : st) (x : ppc) : st :=
  mkSt (script s) (r s) (l s) x (c s) (lplan s) (lfinal s) (psyntax s) (pdiags s) (inpc_closed s) (tokens s)
       (tokens_closed s) (done_closed s) (lfailed s) (saw_end s) (end_queued s) (mu s) (prog_set s) (reads s) (closes s)
       (reads_after_fail s) (got_rerr s) (got_perr s) (prog_seen s).
Definition upd_c (s : st) (x : cpc) : st :=
  mkSt (script s) (r s) (l s) (p s) x (lplan s) (lfinal s) (psyntax s) (pdiags s) (inpc_closed s) (tokens s)
       (tokens_closed s) (done_closed s) (lfailed s) (saw_end s) (end_queued s) (mu s) (prog_set s) (reads s) (closes s)
       (reads_after_fail s) (got_rerr s) (got_perr s) (prog_seen s).

(* one step of process `who`; None = not enabled (blocked or finished) *)
Definition step (s : st) (who : proc) : option st :=
  match who with
  | PR =>
    match r s with
    | R_read =>
      let '(x, rest) := match script s with [] => (RdEOF, []) | x :: rest => (x, rest) end in
      let s1 := mkSt rest (r s) (l s) (p s) (c s) (lplan s) (lfinal s) (psyntax s) (pdiags s) (inpc_closed s) (tokens s)
                     (tokens_closed s) (done_closed s) (lfailed s) (saw_end s) (end_queued s) (mu s) (prog_set s)
                     (S (reads s)) (closes s) (if lfailed s then S (reads_after_fail s) else reads_after_fail s)
                     (got_rerr s) (got_perr s) (prog_seen s) in
      Some (match x with
            | RdErr => upd_r s1 (R_rerr ERead true)
            | RdEOF => upd_r s1 (R_rerr ENone true)
            | RdData | RdZero | RdDataEOF => upd_r s1 R_select
            end)
    | R_select =>
      (* the inpc case of the select: rendezvous with the lexer waiting on inpc
         (the done case is the separate choice SelDone: Go picks among ready cases at random) *)
      match l s with
      | L_need => Some (upd_l (upd_r s R_read) (L_lock false))
      | _ => None
      end
    | R_rerr v k =>
      match c s, got_rerr s with
      | C_rerr, None =>
        let s1 := mkSt (script s) (if k then R_closeinpc else R_closefile) (l s) (p s) C_perr (lplan s) (lfinal s) (psyntax s)
                       (pdiags s) (inpc_closed s) (tokens s) (tokens_closed s) (done_closed s) (lfailed s) (saw_end s)
                       (end_queued s) (mu s) (prog_set s) (reads s) (closes s) (reads_after_fail s) (Some v) (got_perr s)
                       (prog_seen s) in Some s1
      | _, _ => None
      end
    | R_closeinpc =>
      Some (mkSt (script s) R_closefile (l s) (p s) (c s) (lplan s) (lfinal s) (psyntax s) (pdiags s) true (tokens s)
                 (tokens_closed s) (done_closed s) (lfailed s) (saw_end s) (end_queued s) (mu s) (prog_set s) (reads s)
                 (closes s) (reads_after_fail s) (got_rerr s) (got_perr s) (prog_seen s))
    | R_closefile =>
      Some (mkSt (script s) R_done (l s) (p s) (c s) (lplan s) (lfinal s) (psyntax s) (pdiags s) (inpc_closed s) (tokens s)
                 (tokens_closed s) (done_closed s) (lfailed s) (saw_end s) (end_queued s) (mu s) (prog_set s) (reads s)
                 (S (closes s)) (reads_after_fail s) (got_rerr s) (got_perr s) (prog_seen s))
    | R_done => None
    end
  | PL =>
    match l s with
    | L_need =>
      (* the rendezvous itself is the reader's step; here only the closed channel *)
      if inpc_closed s then Some (upd_l s (L_lock true)) else None
    | L_lock fin =>
      match mu s with
      | Some _ => None
      | None =>
        if fin then Some (upd_l s (L_final (lfinal s) false))     (* closed: nothing to add *)
        else
          let '(plan_hd, plan_tl) := match lplan s with [] => ((0, false), []) | x :: t => (x, t) end in
          Some (mkSt (script s) (r s) L_unlock (p s) (c s) (plan_hd :: plan_tl) (lfinal s) (psyntax s) (pdiags s)
                     (inpc_closed s) (tokens s) (tokens_closed s) (done_closed s) (lfailed s) (saw_end s) (end_queued s)
                     (Some PL) (prog_set s) (reads s) (closes s) (reads_after_fail s) (got_rerr s) (got_perr s) (prog_seen s))
      end
    | L_unlock =>
      let '(n, f) := match lplan s with [] => (0, false) | x :: _ => x end in
      Some (mkSt (script s) (r s) (if f then L_final n true else L_emit n false) (p s) (c s) (tl (lplan s)) (lfinal s)
                 (psyntax s) (pdiags s) (inpc_closed s) (tokens s) (tokens_closed s) (done_closed s) (lfailed s) (saw_end s)
                 (end_queued s) None (prog_set s) (reads s) (closes s) (reads_after_fail s) (got_rerr s) (got_perr s)
                 (prog_seen s))
    | L_emit n _ =>
      match n with
      | O => Some (upd_l s L_need)
      | S n' => if tokens s <? tokens_cap
                then Some (mkSt (script s) (r s) (L_emit n' false) (p s) (c s) (lplan s) (lfinal s) (psyntax s) (pdiags s)
                                (inpc_closed s) (S (tokens s)) (tokens_closed s) (done_closed s) (lfailed s) (saw_end s)
                                (if end_queued s =? 0 then 0 else S (end_queued s)) (mu s) (prog_set s) (reads s) (closes s)
                                (reads_after_fail s) (got_rerr s) (got_perr s) (prog_seen s))
                else None
      end
    | L_final n what =>
      if tokens s <? tokens_cap then
        match n with
        | S n' => Some (mkSt (script s) (r s) (L_final n' what) (p s) (c s) (lplan s) (lfinal s) (psyntax s) (pdiags s)
                             (inpc_closed s) (S (tokens s)) (tokens_closed s) (done_closed s) (lfailed s) (saw_end s)
                             (end_queued s) (mu s) (prog_set s) (reads s) (closes s) (reads_after_fail s) (got_rerr s)
                             (got_perr s) (prog_seen s))
        | O => (* the end marker: tEOF, or tERR+tFAIL counted as one buffered item *)
          Some (mkSt (script s) (r s) L_close (p s) (c s) (lplan s) (lfinal s) (psyntax s) (pdiags s)
                     (inpc_closed s) (S (tokens s)) (tokens_closed s) (done_closed s) (lfailed s || what) (saw_end s)
                     1 (mu s) (prog_set s) (reads s) (closes s) (reads_after_fail s) (got_rerr s) (got_perr s)
                     (prog_seen s))
        end
      else None
    | L_close =>
      Some (mkSt (script s) (r s) L_done (p s) (c s) (lplan s) (lfinal s) (psyntax s) (pdiags s) (inpc_closed s) (tokens s)
                 true (done_closed s) (lfailed s) (saw_end s) (end_queued s) (mu s) (prog_set s) (reads s) (closes s)
                 (reads_after_fail s) (got_rerr s) (got_perr s) (prog_seen s))
    | L_done => None
    end
  | PP =>
    match p s with
    | P_recv =>
      match tokens s with
      | S k =>
        (* receive one token; it is the end marker iff the marker sits at the front of the buffer *)
        let is_end := end_queued s =? S k in
        Some (mkSt (script s) (r s) (l s) P_recv (c s) (lplan s) (lfinal s) (psyntax s) (pdiags s) (inpc_closed s) k
                   (tokens_closed s) (done_closed s) (lfailed s) (saw_end s || is_end) (end_queued s) (mu s) (prog_set s)
                   (reads s) (closes s) (reads_after_fail s) (got_rerr s) (got_perr s) (prog_seen s))
      | O => if tokens_closed s then Some (upd_p s (if psyntax s || lfailed s then P_closedone else P_setprog))
             else None
      end
    | P_lock => match mu s with
                | Some _ => None
                | None => Some (mkSt (script s) (r s) (l s) P_unlock (c s) (lplan s) (lfinal s) (psyntax s) (pdiags s)
                                     (inpc_closed s) (tokens s) (tokens_closed s) (done_closed s) (lfailed s) (saw_end s)
                                     (end_queued s) (Some PP) (prog_set s) (reads s) (closes s) (reads_after_fail s)
                                     (got_rerr s) (got_perr s) (prog_seen s))
                end
    | P_unlock => Some (mkSt (script s) (r s) (l s) P_recv (c s) (lplan s) (lfinal s) (psyntax s) (pdiags s - 1)
                             (inpc_closed s) (tokens s) (tokens_closed s) (done_closed s) (lfailed s) (saw_end s)
                             (end_queued s) None (prog_set s) (reads s) (closes s) (reads_after_fail s)
                             (got_rerr s) (got_perr s) (prog_seen s))
    | P_closedone =>
      Some (mkSt (script s) (r s) (l s) P_setprog (c s) (lplan s) (lfinal s) (psyntax s) (pdiags s) (inpc_closed s) (tokens s)
                 (tokens_closed s) true (lfailed s) (saw_end s) (end_queued s) (mu s) (prog_set s) (reads s) (closes s)
                 (reads_after_fail s) (got_rerr s) (got_perr s) (prog_seen s))
    | P_setprog =>
      Some (mkSt (script s) (r s) (l s) P_perr (c s) (lplan s) (lfinal s) (psyntax s) (pdiags s) (inpc_closed s) (tokens s)
                 (tokens_closed s) (done_closed s) (lfailed s) (saw_end s) (end_queued s) (mu s) true (reads s) (closes s)
                 (reads_after_fail s) (got_rerr s) (got_perr s) (prog_seen s))
    | P_perr =>
      match c s with
      | C_perr => Some (mkSt (script s) (r s) (l s) P_done C_readprog (lplan s) (lfinal s) (psyntax s) (pdiags s)
                             (inpc_closed s) (tokens s) (tokens_closed s) (done_closed s) (lfailed s) (saw_end s)
                             (end_queued s) (mu s) (prog_set s) (reads s) (closes s) (reads_after_fail s) (got_rerr s)
                             (Some (if psyntax s || lfailed s then EParse else ENone)) (prog_seen s))
      | _ => None
      end
    | P_done => None
    end
  | PC =>
    match c s with
    | C_readprog =>
      Some (mkSt (script s) (r s) (l s) (p s) C_ret (lplan s) (lfinal s) (psyntax s) (pdiags s) (inpc_closed s) (tokens s)
                 (tokens_closed s) (done_closed s) (lfailed s) (saw_end s) (end_queued s) (mu s) (prog_set s) (reads s)
                 (closes s) (reads_after_fail s) (got_rerr s) (got_perr s) (Some (prog_set s)))
    | _ => None            (* C_rerr / C_perr wait for their partner's rendezvous step *)
    end
  end.

(* the parser may decide to format a diagnostic between two token receives *)
Definition step_diag (s : st) : option st :=
  match p s, pdiags s with
  | P_recv, S _ => Some (upd_p s P_lock)
  | _, _ => None
  end.

(* the done case of the reader's select *)
Definition step_seldone (s : st) : option st :=
  match r s with
  | R_select => if done_closed s then Some (upd_r s (R_rerr ENone false)) else None
  | _ => None
  end.

Inductive choice := Go (who : proc) | Diag | SelDone.
Definition do (s : st) (ch : choice) : option st :=
  match ch with Go w => step s w | Diag => step_diag s | SelDone => step_seldone s end.

(* total execution of a schedule: disabled choices are skipped *)
Fixpoint exec (s : st) (sched : list choice) : st :=
  match sched with
  | [] => s
  | ch :: more => exec (match do s ch with Some s' => s' | None => s end) more
  end.

Definition final (s : st) : bool :=
  match r s, l s, p s, c s with R_done, L_done, P_done, C_ret => true | _, _, _, _ => false end.
Definition returned (s : st) : bool := match c s with C_ret => true | _ => false end.

(* what ParseFile returns: the read error if there was one, else the parse error *)
Definition result (s : st) : option err :=
  match got_rerr s, got_perr s with
  | Some ENone, Some e => Some e
  | Some e, Some _ => Some e
  | _, _ => None
  end.

(* two processes inside the line-table critical section at once = a data race on lfs *)
Definition in_cs_l (s : st) : bool := match l s with L_unlock => true | _ => false end.
Definition in_cs_p (s : st) : bool := match p s with P_unlock => true | _ => false end.
Definition racy (s : st) : bool := in_cs_l s && in_cs_p s.

(* a round-robin scheduler with enough rounds; used by the executable prediction *)
Fixpoint round_robin (rounds : nat) : list choice :=
  match rounds with
  | O => []
  | S k => [Go PR; SelDone; Go PL; Diag; Go PP; Go PC] ++ round_robin k
  end.

(* the prediction compared with the implementation: (result, closes, reads, reads after failure) *)
Definition predict (sc : list rd) (plan : list (nat * bool)) (fin : nat) (syn : bool) (nd : nat)
  : option err * nat * nat * nat * bool :=
  let budget := 40 + 8 * (length sc + fold_left (fun a x => a + fst x) plan 0 + fin + nd) in
  let s := exec (init sc plan fin syn nd) (round_robin budget) in
  (result s, closes s, reads s, reads_after_fail s, final s).
