(* Compile.v: the code generator as a plain recursive function over the AST of Spec/Syntax.v,
   written with the same emitting primitives as Model/Parser.v (so that theorem T2 can compare
   states field by field): compile_program p = the code, constants and scope tables parse.go
   produces while it parses the sentence whose tree is p.  Source positions are not produced
   here (the `prev` token is not maintained); T2 speaks about code, constants and acceptance. *)
From RecordUpdate Require Import RecordSet.
From BCL Require Export Model.Parser Spec.Syntax.
Import RecordSetNotations.
Open Scope N_scope.

Definition ops_of (o : bino) : list N :=
  match o with
  | OEq => [opEQ] | ONe => [opEQ; opNOT] | OLt => [opLT] | OLe => [opGT; opNOT] | OGt => [opGT] | OGe => [opLT; opNOT]
  | OAdd => [opADD] | OSub => [opSUB] | OMul => [opMUL] | ODiv => [opDIV]
  end.

Definition clit (v : value) (s : pst) : pst :=
  match v with
  | VInt 0 => emit_op opZERO s
  | VInt 1 => emit_op opONE s
  | VBool true => emit_op opTRUE s
  | VBool false => emit_op opFALSE s
  | VNil => emit_op opNIL s
  | _ => emit_const v s
  end.

Fixpoint cexpr (e : expr) (s : pst) : pst :=
  match e with
  | ELit v => clit v s
  | EId x =>
    match resolve_local (locals s) (nlocals s) x with
    | Some idx => emit_uvarint idx (emit_op opGETLOCAL s)
    | None => if (depth s =? 0)%Z then perr "undefined variable" s
              else let '(idx, s1) := ident_const x s in emit_uvarint idx (emit_op opGETFIELD s1)
    end
  | EAsg x e1 =>
    match resolve_local (locals s) (nlocals s) x with
    | Some idx => emit_uvarint idx (emit_op opSETLOCAL (cexpr e1 s))
    | None => if (depth s =? 0)%Z then perr "undefined variable" s
              else let '(idx, s1) := ident_const x s in emit_uvarint idx (emit_op opSETFIELD (cexpr e1 s1))
    end
  | EBin o a b => emit_ops (ops_of o) (cexpr b (cexpr a s))
  | EAnd a b =>
    let '(endJump, sa) := emit_jump opJFALSE (cexpr a s) in
    patch_jump endJump (cexpr b (emit_op opPOP sa))
  | EOr a b =>
    let '(midJump, sa) := emit_jump opJFALSE (cexpr a s) in
    let '(endJump, sb) := emit_jump opJUMP sa in
    patch_jump endJump (cexpr b (emit_op opPOP (patch_jump midJump sb)))
  | ENot a => emit_op opNOT (cexpr a s)
  | ENeg a => emit_op opNEG (cexpr a s)
  | EPos a => emit_op opUNPLUS (cexpr a s)
  end.

Definition sel_code (x : bsel) : N := match x with BSone => bindOne | BSfirst => bindFirst | BSlast => bindLast | BSall => bindAll end.
Definition tgt_code (x : btgt) : N := match x with BTstruct => bindStruct | BTslice => bindSlice end.

Definition cdecl_var (name : bytes) (s : pst) : pst := add_local name (decl_scan (locals s) name (depth s) s).

Fixpoint cstmt (st : stmt) (s : pst) {struct st} : pst :=
  match st with
  | SVar x init =>
    let s1 := cdecl_var x s in
    def_var (match init with Some e => cexpr e s1 | None => emit_op opNIL s1 end)
  | SPrint e => emit_op opPRINT (cexpr e s)
  | SEval e | SExpr e => emit_op opPOP (cexpr e s)
  | SDef typ name body =>
    let '(ti, s1) := ident_const typ s in
    let '(ni, s2) := make_const (VStr name) s1 in
    let s3 := begin_scope (emit_uvarint ni (emit_uvarint ti (emit_op opDEFBLOCK s2))) in
    let s4 := (fix go (l : list stmt) (a : pst) : pst := match l with [] => a | x :: r => go r (cstmt x a) end) body s3 in
    emit_op opENDBLOCK (end_scope s4)
  | SBind typ sel tg =>
    let '(idx, s1) := ident_const typ (emit_op opBIND s) in
    write (N.lor (N.land (tgt_code tg) 240) (N.land (sel_code sel) 15)) (emit_uvarint idx s1)
  end.

Definition cstmts (l : list stmt) (s : pst) : pst := fold_left (fun a x => cstmt x a) l s.

Definition compile_program (p : list stmt) : pst :=
  let s := cstmts p (init_pst []) in
  if hadError s then s else emit_op opRET (pop_n (nlocals s) s).
