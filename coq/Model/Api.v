(* Api.v: model of api.go (Parse / Execute / Interpret with options), disasm.go and
   printstats.go.  Output is a list of tagged lines; the Go code writes all of them to the one
   configured output writer, diagnostics and warnings go to the log writer. *)
From RecordUpdate Require Import RecordSet.
From BCL Require Export Model.Parser Model.Vm Model.DumpLoad.
Import RecordSetNotations.
Open Scope N_scope.

(* ---- fmt helpers ---- *)
Definition pad_left (w : nat) (c : N) (s : bytes) : bytes := repeat c (w - length s) ++ s.
Definition pad_right (w : nat) (c : N) (s : bytes) : bytes := s ++ repeat c (w - length s).
Definition d4 (n : N) : bytes := pad_left 4 32 (dec_of_N n).           (* %4d *)
Definition d04 (n : N) : bytes := pad_left 4 48 (dec_of_N n).          (* %04d *)
Definition d5 (n : N) : bytes := pad_left 5 32 (dec_of_N n).           (* %5d *)
Definition hexX (n : N) : bytes :=
  let h d := if d <? 10 then 48 + d else 55 + d in
  if n <? 16 then [h n] else [h (n / 16); h (n mod 16)].
Definition opname10 (o : N) : bytes := pad_right 10 32 (opcode_name o).  (* %-10s *)

Definition prog_of_parts (p : parts) : prog :=
  {| g_name := p_name p; g_code := p_code p; g_consts := p_consts p; g_pos := p_pos p; g_lfs := p_lfs p |}.
Definition parts_of_prog (p : prog) : parts :=
  {| p_name := g_name p; p_code := g_code p; p_consts := g_consts p; p_pos := g_pos p; p_lfs := g_lfs p |}.

(* ---- disassembler ---- *)
Inductive dclass := DSimple | DConst | DVarbyte | DBlock | DJump (fwd : bool) | DBind | DUnknown.
Definition disasm_class (o : N) : dclass :=
  if (o =? opCONST) || (o =? opGETFIELD) || (o =? opSETFIELD) then DConst
  else if (o =? opGETLOCAL) || (o =? opSETLOCAL) || (o =? opPOPN) then DVarbyte
  else if o =? opDEFBLOCK then DBlock
  else if (o =? opJUMP) || (o =? opJFALSE) then DJump true
  else if o =? opLOOP then DJump false
  else if o =? opBIND then DBind
  else if o <=? 30 then DSimple
  else DUnknown.

(* disasmInstr at `offset`, code from there = r: (line, next offset); None = a Go panic (index) *)
Definition disasm_instr (p : prog) (offset : N) (r : bytes) : option (bytes * N) :=
  match r with
  | [] => None
  | instr :: args =>
    let here := nth (N.to_nat offset) (g_pos p) 0 in
    let same := (0 <? offset) && (here =? nth (N.to_nat (offset - 1)) (g_pos p) 0) in
    let head := d04 offset ++ bs " " ++
                (if same then bs "     |  " else pad_left 6 32 (lc_format (g_lfs p) here) ++ bs "  ") in
    let cst i := match get_const p i with Some v => Some (fmt_v v) | None => None end in
    match disasm_class instr with
    | DSimple => Some (head ++ opcode_name instr ++ [10], offset + 1)
    | DUnknown => Some (head ++ bs "unknown opcode " ++ opcode_name instr ++ [10], offset + 1)
    | DConst =>
      match uv_dec args with
      | Some (idx, n) =>
        match cst idx with
        | Some c => Some (head ++ opname10 instr ++ bs " " ++ d4 idx ++ bs " '" ++ c ++ bs "'" ++ [10],
                          offset + 1 + N.of_nat n)
        | None => None end
      | None => None end
    | DVarbyte =>
      match uv_dec args with
      | Some (x, n) => Some (head ++ opname10 instr ++ bs " " ++ d4 x ++ [10], offset + 1 + N.of_nat n)
      | None => None end
    | DBlock =>
      match uv_dec args with
      | Some (ti, n1) =>
        match uv_dec (skipn n1 args) with
        | Some (ni, n2) =>
          match cst ti, cst ni with
          | Some ct, Some cn =>
            Some (head ++ opname10 instr ++ bs " " ++ d4 ti ++ bs " '" ++ ct ++ bs "'" ++ [9] ++ d4 ni ++ bs " '"
                  ++ cn ++ bs "'" ++ [10], offset + 1 + N.of_nat n1 + N.of_nat n2)
          | _, _ => None end
        | None => None end
      | None => None end
    | DJump fwd =>
      match args with
      | b0 :: b1 :: _ =>
        let j := b0 * 256 + b1 in
        let tgt := if fwd then dec_of_N (offset + 3 + j) else dec_of_Z (Z.of_N (offset + 3) - Z.of_N j) in
        Some (head ++ opname10 instr ++ bs " " ++ d4 j ++ bs " -> " ++ pad_left 4 48 tgt ++ [10], offset + 3)
      | _ => None end
    | DBind =>
      match uv_dec args with
      | Some (idx, n) =>
        match cst idx, nth_opt args n with
        | Some c, Some arg =>
          Some (head ++ opname10 instr ++ bs " " ++ d4 idx ++ bs " '" ++ c ++ bs "'" ++ [9] ++ bs "0x"
                ++ pad_left 2 32 (hexX arg) ++ [10], offset + 1 + N.of_nat n + 1)
        | _, _ => None end
      | None => None end
    end
  end.

(* disasm(): header, then instruction by instruction; Some lines | None (panic) *)
Fixpoint disasm_loop (fuel : nat) (p : prog) (offset : N) (r : bytes) (acc : list bytes) : option (list bytes) :=
  match r with
  | [] => Some (frev acc)
  | _ =>
    match fuel with
    | O => None
    | S f =>
      match disasm_instr p offset r with
      | Some (line, next) => disasm_loop f p next (skipn (N.to_nat (next - offset)) r) (line :: acc)
      | None => None
      end
    end
  end.
Definition disasm (p : prog) : option (list bytes) :=
  match disasm_loop (S (length (g_code p))) p 0 (g_code p) [] with
  | Some ls => Some (match g_name p with
                     | [] => ls
                     | nm => (bs "== " ++ nm ++ bs " ==" ++ [10]) :: ls end)
  | None => None
  end.

(* trace hook: printStack + disasmInstr(pc) *)
Definition trace_lines (p : prog) (m : vm) : list (otag * bytes) :=
  let st := bs "             " ++ dec_of_N (tos m) ++ bs ": " ++
            flat_map (fun v => bs "[ " ++ fmt_v v ++ bs " ]") (frev (stack m)) ++ [10] in
  match disasm_instr p (pc m) (rest m) with
  | Some (line, _) => [(OTrace, line); (OTrace, st)]        (* newest first *)
  | None => [(OTrace, bs "<disasm panic>"); (OTrace, st)]
  end.

(* ---- the API ---- *)
Record pstats := { ps_tokens : N; ps_localMax : N; ps_depthMax : Z; ps_constants : N; ps_ops : N; ps_code : N }.

Definition pstats_lines (s : pstats) : list bytes :=
  [bs "pstats.tokens:     " ++ d5 (ps_tokens s) ++ [10];
   bs "pstats.localMax:   " ++ d5 (ps_localMax s) ++ [10];
   bs "pstats.depthMax:   " ++ pad_left 5 32 (dec_of_Z (ps_depthMax s)) ++ [10];
   bs "pstats.constants:  " ++ d5 (ps_constants s) ++ [10];
   bs "pstats.opsCreated: " ++ d5 (ps_ops s) ++ [10];
   bs "pstats.codeBytes:  " ++ d5 (ps_code s) ++ [10]].
Definition xstats_lines (m : vm) : list bytes :=
  [bs "xstats.tosMax:     " ++ d5 (tosMax m) ++ [10];
   bs "xstats.blockTosMax:" ++ d5 (btosMax m) ++ [10];
   bs "xstats.opsRead:    " ++ d5 (opsRead m) ++ [10];
   bs "xstats.pcFinal:    " ++ d5 (pc m) ++ [10]].

Record parse_result := {
  pr_ok : bool;                 (* no error *)
  pr_prog : prog;
  pr_diags : list diag;         (* in order *)
  pr_stats : pstats;
  pr_oof : bool; pr_panic : bool
}.

(* parse over chunks (ParseFile delivers several, Parse one) *)
Definition parse_chunks (name : bytes) (chunks : list bytes) : parse_result :=
  let '(ts, l) := lex chunks in
  let s := parse_tokens ts in
  {| pr_ok := negb (hadError s);
     pr_prog := {| g_name := name; g_code := frev (code s); g_consts := frev (consts s);
                   g_pos := frev (positions s); g_lfs := l |};
     pr_diags := frev (log s);
     pr_stats := {| ps_tokens := st_tokens s; ps_localMax := st_localMax s; ps_depthMax := st_depthMax s;
                    ps_constants := nconsts s; ps_ops := st_ops s; ps_code := ncode s |};
     pr_oof := oof s; pr_panic := ppanic s |}.
Definition parse_whole (name src : bytes) : parse_result := parse_chunks name [src].

(* the log text of a diagnostic: "line L:C: error[ at end| at 'tok']: msg\n" *)
Definition diag_line (l : list N) (d : diag) : bytes :=
  bs "line " ++ lc_format l (d_pos d) ++ bs ": error" ++
  match d_at d with AtNone => [] | AtEnd => bs " at end" | AtTok v => bs " at '" ++ v ++ bs "'" end
  ++ bs ": " ++ d_msg d ++ [10].

Record run_result := {
  rr_out : list (otag * bytes);        (* in order *)
  rr_blocks : list value;              (* in completion order *)
  rr_binding : binding;
  rr_warn : list (N * bytes);          (* in order *)
  rr_res : vres;
  rr_vm : vm
}.

Definition execute (p : prog) (trace stats : bool) : run_result :=
  let tr := if trace then trace_lines p else (fun _ => []) in
  let '(m, r) := run_fuel (run_bound p) p tr (init_vm p) in
  let xs := if stats then map (fun l => (OStats, l)) (xstats_lines m) else [] in
  {| rr_out := frev (vout m) ++ xs; rr_blocks := frev (result m); rr_binding := bind_ m;
     rr_warn := frev (vwarn m); rr_res := r; rr_vm := m |}.

Inductive ioutcome :=
| IParseErr (diags : list diag) (out : list (otag * bytes))
| IRun (out : list (otag * bytes)) (r : run_result)
| IModelFail (what : bytes).

(* Interpret with OptDisasm d, OptTrace t, OptStats s *)
Definition interpret (name src : bytes) (d t s : bool) : parse_result * ioutcome :=
  let pr := parse_whole name src in
  if pr_oof pr then (pr, IModelFail (bs "parser out of fuel"))
  else if pr_panic pr then (pr, IModelFail (bs "parser panic site"))
  else
    let ps := if s then map (fun l => (OStats, l)) (pstats_lines (pr_stats pr)) else [] in
    if negb (pr_ok pr) then (pr, IParseErr (pr_diags pr) ps)
    else
      let dis := if d then match disasm (pr_prog pr) with
                           | Some ls => map (fun l => (ODisasm, l)) ls
                           | None => [(ODisasm, bs "<disasm panic>")] end
                 else [] in
      let rr := execute (pr_prog pr) t s in
      (pr, IRun (dis ++ ps ++ rr_out rr) rr).
