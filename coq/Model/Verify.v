(* Verify.v: a bytecode verifier for the code the compiler emits (lightweight bytecode
   verification: one forward pass, labels carried to the targets of forward jumps).

   verify p = true is a certificate that, whichever branches are taken at run time:
   the instructions tile the code exactly and the last one is RET; every constant operand is in
   range and of the kind the instruction needs; every local slot is below the stack depth at that
   point; every jump lands on an instruction boundary inside the code; the operand-stack depth
   and the block depth are the same along all paths into each instruction, never negative, and
   zero at RET; block open/close are balanced.  Soundness against Model/Vm.v: Proofs/VerifyProofs.v.
   Backward jumps (LOOP), which the compiler never emits, are rejected. *)
From BCL Require Export Model.Vm.
Open Scope N_scope.

(* expected (stack depth, block depth) at jump targets not yet reached *)
Definition pend := list (N * (N * N)).

Fixpoint pend_at (o : N) (l : pend) : list (N * N) * pend :=
  match l with
  | [] => ([], [])
  | (t, lab) :: r => let '(here, rest) := pend_at o r in
                     if t =? o then (lab :: here, rest) else (here, (t, lab) :: rest)
  end.
Definition lab_eqb (a b : N * N) : bool := (fst a =? fst b) && (snd a =? snd b).

Definition const_is_str (p : prog) (i : N) : bool :=
  match get_const p i with Some (VStr _) => true | _ => false end.
Definition const_ok (p : prog) (i : N) : bool :=
  match get_const p i with Some _ => true | None => false end.

(* one instruction at offset o with the code from there = r, entered with label (d, b):
   Some (size, fallthrough label or None after JUMP, new pending target) or None = reject *)
Definition vstep (p : prog) (o : N) (r : bytes) (d b : N) : option (N * option (N * N) * option (N * (N * N))) :=
  match r with
  | [] => None
  | instr :: args =>
    let simple (need : N) (d' : N) := if need <=? d then Some (1, Some (d', b), None) else None in
    let uv := uv_dec args in
    if (instr =? opZERO) || (instr =? opONE) || (instr =? opTRUE) || (instr =? opFALSE) || (instr =? opNIL)
    then simple 0 (d + 1)
    else if instr =? opCONST then
      match uv with Some (i, n) => if const_ok p i then Some (1 + N.of_nat n, Some (d + 1, b), None) else None | None => None end
    else if (instr =? opEQ) || (instr =? opLT) || (instr =? opGT) || (instr =? opADD) || (instr =? opSUB)
            || (instr =? opMUL) || (instr =? opDIV) then simple 2 (d - 1)
    else if (instr =? opNEG) || (instr =? opUNPLUS) || (instr =? opNOT) then simple 1 d
    else if (instr =? opPOP) || (instr =? opPRINT) then simple 1 (d - 1)
    else if instr =? opPOPN then
      match uv with Some (k, n) => if k <=? d then Some (1 + N.of_nat n, Some (d - k, b), None) else None | None => None end
    else if instr =? opGETLOCAL then
      match uv with Some (s, n) => if s <? d then Some (1 + N.of_nat n, Some (d + 1, b), None) else None | None => None end
    else if instr =? opSETLOCAL then
      match uv with Some (s, n) => if (s <? d) && (1 <=? d) then Some (1 + N.of_nat n, Some (d, b), None) else None | None => None end
    else if instr =? opGETFIELD then
      match uv with Some (i, n) => if const_is_str p i && (1 <=? b) then Some (1 + N.of_nat n, Some (d + 1, b), None) else None
                  | None => None end
    else if instr =? opSETFIELD then
      match uv with Some (i, n) => if const_is_str p i && (1 <=? b) && (1 <=? d) then Some (1 + N.of_nat n, Some (d, b), None) else None
                  | None => None end
    else if instr =? opDEFBLOCK then
      match uv with
      | Some (ti, n1) =>
        match uv_dec (skipn n1 args) with
        | Some (ni, n2) => if const_is_str p ti && const_is_str p ni
                           then Some (1 + N.of_nat n1 + N.of_nat n2, Some (d, b + 1), None) else None
        | None => None end
      | None => None end
    else if instr =? opENDBLOCK then if 1 <=? b then Some (1, Some (d, b - 1), None) else None
    else if instr =? opBIND then
      match uv with
      | Some (i, n) => match nth_opt args n with
                       | Some _ => if const_is_str p i then Some (1 + N.of_nat n + 1, Some (d, b), None) else None
                       | None => None end
      | None => None end
    else if instr =? opJFALSE then
      match args with
      | b0 :: b1 :: _ => if 1 <=? d then Some (3, Some (d, b), Some (o + 3 + (b0 * 256 + b1), (d, b))) else None
      | _ => None end
    else if instr =? opJUMP then
      match args with
      | b0 :: b1 :: _ => Some (3, None, Some (o + 3 + (b0 * 256 + b1), (d, b)))
      | _ => None end
    else if instr =? opNOP then simple 0 d
    else None            (* RET is handled by the walk; LOOP and unknown opcodes are rejected *)
  end.

(* the walk: o = current offset, r = code from o, cur = label on the fall-through edge *)
Fixpoint vwalk (fuel : nat) (p : prog) (o : N) (r : bytes) (cur : option (N * N)) (pd : pend) : bool :=
  match fuel with
  | O => false
  | S f =>
    let '(here, pd1) := pend_at o pd in
    (* all edges into this boundary agree *)
    let lab := match cur, here with
               | Some l, _ => if forallb (lab_eqb l) here then Some l else None
               | None, l :: more => if forallb (lab_eqb l) more then Some l else None
               | None, [] => None
               end in
    match lab with
    | None => false
    | Some (d, b) =>
      match r with
      | [] => false                                   (* fell off the end without RET *)
      | instr :: rest =>
        if instr =? opRET then
          (* RET: depth 0, blocks balanced, last byte of the code, no jump target left over *)
          (d =? 0) && (b =? 0) && match rest with [] => true | _ => false end && match pd1 with [] => true | _ => false end
        else
          match vstep p o r d b with
          | None => false
          | Some (size, next, newp) =>
            let o' := o + size in
            let pd2 := match newp with Some x => x :: pd1 | None => pd1 end in
            (* targets must be boundaries: none may fall strictly inside this instruction, none may point backwards *)
            if forallb (fun t => o' <=? fst t) pd2
            then vwalk f p o' (skipn (N.to_nat size) r) next pd2
            else false
          end
      end
    end
  end.

Definition verify (p : prog) : bool :=
  (nlen (g_pos p) =? nlen (g_code p)) &&
  vwalk (S (length (g_code p))) p 0 (g_code p) (Some (0, 0)) [].
