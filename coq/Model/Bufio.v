(* Bufio.v: the part of bufio.Reader (size 4096) and io.ReadFull that prog.go's Load uses,
   over an underlying reader that hands out an arbitrary partition of the byte stream.
   Modelled from the Go standard library source; validated by the correspondence suites
   `dumpload` and `truncate`, which feed real bufio.Readers with scripted partitions. *)
From BCL Require Export Lib.Base.
Open Scope N_scope.

Definition bufsize : N := 4096.

(* Reader operations as Load sees them.  [short] = the request could not be met. *)
Record rops (R : Type) := {
  r_peek     : N -> R -> bytes * R;       (* up to n bytes (n <= 4096), not consumed *)
  r_discard  : N -> R -> N * R;           (* number discarded *)
  r_readfull : N -> R -> bytes * R;       (* io.ReadFull: up to n bytes, consumed; short iff fewer *)
  r_read1    : R -> option N * R;         (* r.Read(b[:1]) : Some byte | None (= 0, EOF) *)
  r_left     : R -> nat                   (* bytes not yet consumed (fuel bound only) *)
}.
Arguments r_peek {R}. Arguments r_discard {R}. Arguments r_readfull {R}.
Arguments r_read1 {R}. Arguments r_left {R}.

(* --- abstract reader: just the remaining bytes --- *)
Definition a_peek (n : N) (r : bytes) : bytes * bytes := (fst (uptoN r n), r).
Definition a_discard (n : N) (r : bytes) : N * bytes :=
  let '(t, rest) := uptoN r n in (nlen t, rest).
Definition a_readfull (n : N) (r : bytes) : bytes * bytes := uptoN r n.
Definition a_read1 (r : bytes) : option N * bytes :=
  match r with [] => (None, []) | b :: r' => (Some b, r') end.
Definition aops : rops bytes :=
  {| r_peek := a_peek; r_discard := a_discard; r_readfull := a_readfull;
     r_read1 := a_read1; r_left := @length N |}.

(* --- concrete bufio.Reader over a chunked source --- *)
Record br := { bbuf : bytes;           (* buffered, unread: b.buf[b.r:b.w] *)
               bsrc : list bytes }.    (* what successive underlying Reads will deliver;
                                          a chunk longer than the space offered is delivered in pieces *)

(* one underlying Read into a slice of capacity cap (cap > 0): returns the bytes read *)
Definition src_read (cap : N) (src : list bytes) : bytes * list bytes :=
  match src with
  | [] => ([], [])
  | c :: more => let '(t, rest) := uptoN c cap in
                 (t, match rest with [] => more | _ => rest :: more end)
  end.

(* b.fill(): one underlying read into the free space (empty reads are retried by bufio up to
   100 times; the model takes the source to contain no empty chunks, see DESIGN) *)
Definition fill (b : br) : br :=
  let '(t, src') := src_read (bufsize - nlen (bbuf b)) (bsrc b) in
  {| bbuf := bbuf b ++ t; bsrc := src' |}.

(* Peek(n), n <= 4096: fill while fewer than n bytes are buffered and the source is not
   exhausted.  Structural on the source: a chunk that does not fit leaves the buffer full,
   and n <= 4096 is then satisfied. *)
Fixpoint peek_go (n : N) (buf : bytes) (src : list bytes) : bytes * list bytes :=
  if n <=? nlen buf then (buf, src)
  else match src with
       | [] => (buf, [])
       | c :: more =>
           let '(t, rest) := uptoN c (bufsize - nlen buf) in
           match rest with
           | [] => peek_go n (buf ++ t) more
           | _ => (buf ++ t, rest :: more)
           end
       end.
Definition c_peek (n : N) (b : br) : bytes * br :=
  let '(buf, src) := peek_go n (bbuf b) (bsrc b) in
  (fst (uptoN buf n), {| bbuf := buf; bsrc := src |}).

(* Discard(n): Load only ever discards what it has just peeked (n <= buffered); only that
   case is modelled, otherwise the buffered bytes are dropped and fewer are reported. *)
Definition c_discard (n : N) (b : br) : N * br :=
  let '(t, rest) := uptoN (bbuf b) n in (nlen t, {| bbuf := rest; bsrc := bsrc b |}).

(* io.ReadFull(r, p), len p = n: b.Read repeated.  With an empty buffer a request of
   >= 4096 bytes reads directly from the source, a smaller one fills the buffer first. *)
Fixpoint readfull_src (n : N) (src : list bytes) : bytes * br :=
  if n =? 0 then ([], {| bbuf := []; bsrc := src |})
  else match src with
       | [] => ([], {| bbuf := []; bsrc := [] |})
       | c :: more =>
           if nlen c <=? n then
             let '(t, b') := readfull_src (n - nlen c) more in (c ++ t, b')
           else if bufsize <=? n then
             let '(t, rest) := uptoN c n in (t, {| bbuf := []; bsrc := rest :: more |})
           else
             let '(piece, rest) := uptoN c bufsize in
             let '(t, keep) := uptoN piece n in
             (t, {| bbuf := keep; bsrc := match rest with [] => more | _ => rest :: more end |})
       end.
Definition c_readfull (n : N) (b : br) : bytes * br :=
  let '(t, rest) := uptoN (bbuf b) n in
  match rest with
  | _ :: _ => (t, {| bbuf := rest; bsrc := bsrc b |})
  | [] => let '(t2, b') := readfull_src (n - nlen t) (bsrc b) in (t ++ t2, b')
  end.

(* r.Read(b[:1]) *)
Definition c_read1 (b : br) : option N * br :=
  match bbuf b with
  | x :: rest => (Some x, {| bbuf := rest; bsrc := bsrc b |})
  | [] => match bsrc b with
          | [] => (None, b)
          | c :: more =>
              let '(piece, rest) := uptoN c bufsize in
              match piece with
              | x :: keep => (Some x, {| bbuf := keep;
                                         bsrc := match rest with [] => more | _ => rest :: more end |})
              | [] => (None, {| bbuf := []; bsrc := more |})
              end
          end
  end.

Definition c_left (b : br) : nat := length (bbuf b) + length (concat (bsrc b)).

Definition cops : rops br :=
  {| r_peek := c_peek; r_discard := c_discard; r_readfull := c_readfull;
     r_read1 := c_read1; r_left := c_left |}.

Definition br_abs (b : br) : bytes := bbuf b ++ concat (bsrc b).
