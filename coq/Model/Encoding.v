(* Encoding.v: model of encoding.go and of github.com/mohae/uvarint (sqlite4 varints). *)
From BCL Require Export Model.Value.
Open Scope N_scope.

(* big-endian k-byte representation (the Go code writes byte(x >> 8*i)) *)
Fixpoint be (k : nat) (n : N) : bytes :=
  match k with
  | O => []
  | S k' => (n / 256 ^ N.of_nat k') mod 256 :: be k' n
  end.
Definition from_be (l : bytes) : N := fold_left (fun a b => a * 256 + b) l 0.

(* u16ToBytes / u16FromBytes *)
Definition u16_enc (x : N) : bytes := [(x / 256) mod 256; x mod 256].
Definition u16_dec (b : bytes) : option N :=
  match b with b0 :: b1 :: _ => Some (b0 * 256 + b1) | _ => None end.

(* uvarint.PutUvarint *)
Definition uv_enc (x : N) : bytes :=
  if x <? 241 then [x]
  else if x <? 2288 then [(x - 240) / 256 + 241; (x - 240) mod 256]
  else if x <? 67824 then [249; (x - 2288) / 256; (x - 2288) mod 256]
  else if x <? 2^24 then 250 :: be 3 x
  else if x <? 2^32 then 251 :: be 4 x
  else if x <? 2^40 then 252 :: be 5 x
  else if x <? 2^48 then 253 :: be 6 x
  else if x <? 2^56 then 254 :: be 7 x
  else 255 :: be 8 x.

(* uvarint.Uvarint; None where the Go code indexes out of range *)
Definition uv_dec (buf : bytes) : option (N * nat) :=
  match buf with
  | [] => None
  | b0 :: r =>
    if b0 <=? 240 then Some (b0, 1%nat)
    else if b0 <=? 248 then
      match r with a1 :: _ => Some (240 + 256 * (b0 - 241) + a1, 2%nat) | _ => None end
    else if b0 =? 249 then
      match r with a1 :: a2 :: _ => Some (2288 + 256 * a1 + a2, 3%nat) | _ => None end
    else
      let k := N.to_nat (b0 - 247) in      (* 250 -> 3 ... 255 -> 8 *)
      match take k r with Some l => Some (from_be l, S k) | None => None end
  end.

(* encoding.go uvarintSize (added by the truncation fix) *)
Definition uv_size (p : bytes) : nat :=
  match p with
  | [] => 1%nat
  | b0 :: _ => if b0 <=? 240 then 1%nat else if b0 <=? 248 then 2%nat
               else N.to_nat (b0 - 246)
  end.

Definition two64 : N := 2^64.
Definition two63 : Z := (2^63)%Z.

(* i64ToU64 / u64ToI64: two's complement *)
Definition i64_to_u64 (z : Z) : N := Z.to_N (z mod 2^64)%Z.
Definition u64_to_i64 (n : N) : Z :=
  if n <? 2^63 then Z.of_N n else (Z.of_N n - 2^64)%Z.

(* valueToBytes into a scratch buffer of length plen: Panic PNoSpace / PIndex when too short *)
Definition value_enc (plen : N) (v : value) : outcome bytes :=
  match v with
  | VInt z => Ok (1 :: uv_enc (i64_to_u64 z))            (* typeINT = 1 *)
  | VFloat b => Ok (2 :: be 8 b)                          (* typeFLOAT = 2 *)
  | VStr s =>
      let l := uv_enc (nlen s) in
      if plen <? 1 + nlen l + nlen s then Panic PNoSpace
      else Ok (3 :: l ++ s)                                (* typeSTR = 3 *)
  | VBool b => Ok [4; if b then 1 else 0]                 (* typeBOOL = 4 *)
  | VNil => Ok [0]                                        (* typeNIL = 0 *)
  | VBlock _ _ _ => Panic PInvalidValue
  end.

(* valueFromBytes *)
Definition value_dec (p : bytes) : outcome (value * nat) :=
  match p with
  | [] => Panic PIndex
  | c :: p =>
    if c =? 1 then
      match uv_dec p with Some (x, n) => Ok (VInt (u64_to_i64 x), S n) | None => Panic PIndex end
    else if c =? 2 then
      match take 8 p with Some l => Ok (VFloat (from_be l), 9%nat) | None => Panic PIndex end
    else if c =? 3 then
      match uv_dec p with
      | Some (k, i) =>
          match take (N.to_nat k) (skipn i p) with
          | Some s => Ok (VStr s, S (i + N.to_nat k)) | None => Panic PIndex end
      | None => Panic PIndex end
    else if c =? 4 then
      match p with b :: _ => Ok (VBool (negb (b =? 0)), 2%nat) | [] => Panic PIndex end
    else if c =? 0 then Ok (VNil, 1%nat)
    else Panic PInvalidType
  end.
