(* driver.ml: line-oriented runner for the extracted model.
   stdin : suite<TAB>id<TAB>hex(case bytes)
   stdout: id<TAB>result line *)
open Model

let rec pos_of_int n = if n = 1 then XH else if n land 1 = 1 then XI (pos_of_int (n lsr 1)) else XO (pos_of_int (n lsr 1))
let n_of_int n = if n = 0 then N0 else Npos (pos_of_int n)
let rec int_of_pos = function XH -> 1 | XO p -> 2 * int_of_pos p | XI p -> 2 * int_of_pos p + 1
let int_of_n = function N0 -> 0 | Npos p -> int_of_pos p

let byte_tbl = Array.init 256 n_of_int

let bytes_of_string s =
  let rec go i acc = if i < 0 then acc else go (i - 1) (byte_tbl.(Char.code s.[i]) :: acc) in
  go (String.length s - 1) []

let string_of_bytes l =
  let b = Buffer.create 256 in
  List.iter (fun n -> Buffer.add_char b (Char.chr ((int_of_n n) land 255))) l;
  Buffer.contents b

let hexval c = match c with
  | '0'..'9' -> Char.code c - 48 | 'a'..'f' -> Char.code c - 87 | 'A'..'F' -> Char.code c - 55
  | _ -> failwith "hex"

let unhex s =
  let n = String.length s / 2 in
  let rec go i acc = if i < 0 then acc
    else go (i - 1) (byte_tbl.(hexval s.[2*i] * 16 + hexval s.[2*i+1]) :: acc) in
  go (n - 1) []

let () =
  try
    while true do
      let line = input_line stdin in
      match String.split_on_char '\t' line with
      | [suite; id; hex] ->
          let r = (try string_of_bytes (run_suite (bytes_of_string suite) (unhex hex))
                   with Stack_overflow -> "MODEL-STACK-OVERFLOW") in
          print_string id; print_char '\t'; print_string r; print_char '\n'
      | _ -> ()
    done
  with End_of_file -> ()
