(* Extraction of the executable model.  Only ExtrOcamlBasic: bool, option, unit, list, prod,
   sumbool, sumor become OCaml's; N, Z, positive, nat stay Coq datatypes. *)
From Coq Require Extraction.
From Coq Require Import ExtrOcamlBasic.
From BCL Require Import Extract.Suites.
Extraction Language OCaml.
Extraction "model.ml" run_suite.
