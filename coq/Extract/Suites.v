(* Suites.v: entry points of the extracted model runner.  A case is a list of length-framed
   fields; the result is one line of bytes.  All parsing and printing is Gallina, so that the
   OCaml driver only moves bytes. *)
From BCL Require Import Model.DumpLoad Model.Lexer Model.Api.
From BCL Require Import Model.CliRun.
From BCL Require Spec.Format.
From BCL Require Model.Proto.
From BCL Require Import Model.Reflect.
From BCL Require Model.Cli.
From BCL Require Import Model.Verify.
From BCL Require Import Model.Compile.
From BCL Require Spec.AstSem.
Open Scope N_scope.

Definition sp : N := 32.
Definition commas (l : list bytes) : bytes := join [44] l.

Definition show_value (v : value) : bytes :=
  match v with
  | VNil => bs "n"
  | VBool b => bs (if b then "b1" else "b0")
  | VInt z => bs "i" ++ dec_of_Z z
  | VFloat b => if f_is_nan b then bs "fNaN" else bs "f" ++ dec_of_N b
  | VStr s => bs "s" ++ hex_of_bytes s
  | VBlock _ _ _ => bs "BLOCK"
  end.

(* canonical block text, the same as harness showBlock: keys sorted *)
Fixpoint show_val (fuel : nat) (v : value) : bytes :=
  match v with
  | VBlock t n fs =>
    match fuel with
    | O => bs "B{...}"
    | S f => bs "B{" ++ hex_of_bytes t ++ [58] ++ hex_of_bytes n ++
             flat_map (fun kv => [32] ++ hex_of_bytes (fst kv) ++ [61] ++ show_val f (snd kv)) (sort_fields fs)
             ++ bs "}"
    end
  | _ => show_value v
  end.
Definition show_block (v : value) : bytes := skipn 1 (show_val 64 v).
Definition show_blocks (l : list value) : bytes := join [59] (map show_block l).
Definition show_binding (b : binding) : bytes :=
  match b with
  | BNone => bs "none"
  | BStruct v => bs "struct " ++ show_block v
  | BSlice l => bs "slice " ++ show_blocks l
  end.

Definition read_value (f : bytes) : value :=
  match f with
  | 110 :: _ => VNil
  | 98 :: 49 :: _ => VBool true
  | 98 :: _ => VBool false
  | 105 :: r => VInt (znum_of r)
  | 102 :: r => VFloat (num_of r)
  | 115 :: r => VStr r               (* raw bytes in case fields *)
  | _ => VNil
  end.

Definition show_parts (p : parts) : bytes :=
  bs "name=" ++ hex_of_bytes (p_name p) ++ bs " code=" ++ hex_of_bytes (p_code p)
  ++ bs " consts=" ++ commas (map show_value (p_consts p))
  ++ bs " pos=" ++ commas (map dec_of_N (p_pos p))
  ++ bs " lfs=" ++ commas (map dec_of_N (p_lfs p)).

Definition show_outcome {A} (show : A -> bytes) (o : outcome A) : bytes :=
  match o with
  | Ok a => bs "ok " ++ show a
  | Err l => bs "err " ++ l
  | Panic k => bs "panic " ++ panic_name k
  end.

Definition nums (f : bytes) : list N := map num_of (fields f).

Definition read_parts (fs : list bytes) : parts :=
  match fs with
  | name :: code :: consts :: pos :: lfs :: _ =>
      {| p_name := name; p_code := code; p_consts := map read_value (fields consts);
         p_pos := nums pos; p_lfs := nums lfs |}
  | _ => {| p_name := []; p_code := []; p_consts := []; p_pos := []; p_lfs := [] |}
  end.

Definition suite_dump (c : bytes) : bytes :=
  show_outcome hex_of_bytes (dump (read_parts (fields c))).
Definition suite_load (c : bytes) : bytes :=
  show_outcome show_parts (load_chunks (fields c)).
Definition suite_load_whole (c : bytes) : bytes :=
  show_outcome show_parts (load_bytes c).
Definition suite_uvarint (c : bytes) : bytes :=
  let x := num_of c in
  hex_of_bytes (uv_enc x) ++ [sp] ++
  match uv_dec (uv_enc x) with Some (y, n) => dec_of_N y ++ [sp] ++ dec_of_N (N.of_nat n) | None => bs "none" end.

Definition show_lexerr (e : lexerr) : bytes :=
  match e with
  | LE_expected_char r => bs "expected-" ++ dec_of_N r
  | LE_unknown_char r => bs "unknown-" ++ dec_of_N r
  | LE_invalid_syntax t => bs "syntax-" ++ hex_of_bytes t
  | LE_dot_digits => bs "dot"
  | LE_exp_digits => bs "exp"
  | LE_unterminated => bs "unterminated"
  end.
Definition show_token (t : token) : bytes :=
  tok_name (ttyp t) ++ [58] ++
  match terr t with Some e => show_lexerr e | None => hex_of_bytes (tval t) end
  ++ [58] ++ dec_of_N (tpos t).
Definition suite_lex (c : bytes) : bytes :=
  let '(ts, l) := lex (fields c) in
  bs "toks=" ++ commas (map show_token ts) ++ bs " lfs=" ++ commas (map dec_of_N l).
Definition suite_linecol (c : bytes) : bytes :=
  match fields c with
  | l :: p :: _ => let '(ln, col) := line_col_at (nums l) (num_of p) in dec_of_N ln ++ [58] ++ dec_of_Z col
  | _ => bs "bad-case"
  end.

Definition show_prog (p : prog) : bytes := show_parts (parts_of_prog p).
Definition out_bytes (o : list (otag * bytes)) : bytes := flat_map snd o.
Definition print_bytes (o : list (otag * bytes)) : bytes :=
  flat_map (fun x => match fst x with OPrint => snd x | _ => [] end) o.
Definition has_byte (c : N) (l : bytes) : bool := existsb (N.eqb c) l.

(* interp: fields name, src, opts ("d","t","s" letters) *)
Definition suite_interp (c : bytes) : bytes :=
  match fields c with
  | name :: src :: opts :: _ =>
    let '(pr, io) := interpret name src (has_byte 100 opts) (has_byte 116 opts) (has_byte 115 opts) in
    let lfs_ := g_lfs (pr_prog pr) in
    match io with
    | IModelFail w => bs "class=modelfail " ++ w
    | IParseErr ds o =>
        bs "class=parse out=" ++ hex_of_bytes (out_bytes o) ++ bs " log=" ++ hex_of_bytes (flat_map (diag_line lfs_) ds)
    | IRun o rr =>
        let warn := flat_map (fun w => bs "WARNING: line " ++ lc_format lfs_ (fst w) ++ bs ": " ++ snd w ++ [10]) (rr_warn rr) in
        let cls := match rr_res rr with
                   | VOk => bs "class=ok"
                   | VErr pos msg => bs "class=runtime err=" ++ hex_of_bytes (bs "runtime error: line " ++ lc_format lfs_ pos ++ bs ": " ++ msg)
                   | VInternal msg => bs "class=internal err=" ++ hex_of_bytes msg
                   | VPanic k => bs "class=panic:" ++ panic_name k
                   end in
        cls ++ bs " out=" ++ hex_of_bytes (out_bytes o) ++ bs " log=" ++ hex_of_bytes warn
        ++ bs " blocks=" ++ show_blocks (rr_blocks rr) ++ bs " binding=" ++ show_binding (rr_binding rr)
        ++ bs " parts=" ++ show_prog (pr_prog pr)
    end
  | _ => bs "bad-case"
  end.

(* parsechunks: fields name, chunk1, chunk2, ... -> parts or diagnostics *)
Definition suite_parse (c : bytes) : bytes :=
  match fields c with
  | name :: chunks =>
    let pr := parse_chunks name chunks in
    if pr_oof pr then bs "class=modelfail oof" else if pr_panic pr then bs "class=modelfail panic"
    else if pr_ok pr then bs "class=ok parts=" ++ show_prog (pr_prog pr)
    else bs "class=parse log=" ++ hex_of_bytes (flat_map (diag_line (g_lfs (pr_prog pr))) (pr_diags pr))
  | _ => bs "bad-case"
  end.

(* independent decoder of Spec/Format.v on real dump bytes; and the documented encoder on parts *)
Definition file_of_parts (p : parts) : Format.file :=
  {| Format.f_name := p_name p; Format.f_code := p_code p; Format.f_consts := p_consts p;
     Format.f_pos := p_pos p; Format.f_lfs := p_lfs p |}.
Definition parts_of_file (f : Format.file) : parts :=
  {| p_name := Format.f_name f; p_code := Format.f_code f; p_consts := Format.f_consts f;
     p_pos := Format.f_pos f; p_lfs := Format.f_lfs f |}.
Definition suite_fmtdecode (c : bytes) : bytes :=
  match Format.decode c with
  | Some (f, r) => bs "ok " ++ show_parts (parts_of_file f) ++ bs " rest=" ++ dec_of_N (nlen r)
  | None => bs "none"
  end.
Definition suite_fmtencode (c : bytes) : bytes := hex_of_bytes (Format.encode (file_of_parts (read_parts (fields c)))).

Definition show_run (lfs_ : list N) (o : list (otag * bytes)) (rr : run_result) : bytes :=
  let warn := flat_map (fun w => bs "WARNING: line " ++ lc_format lfs_ (fst w) ++ bs ": " ++ snd w ++ [10]) (rr_warn rr) in
  let cls := match rr_res rr with
             | VOk => bs "class=ok"
             | VErr pos msg => bs "class=runtime err=" ++ hex_of_bytes (bs "runtime error: line " ++ lc_format lfs_ pos ++ bs ": " ++ msg)
             | VInternal msg => bs "class=internal err=" ++ hex_of_bytes msg
             | VPanic k => bs "class=panic:" ++ panic_name k
             end in
  cls ++ bs " out=" ++ hex_of_bytes (out_bytes o) ++ bs " log=" ++ hex_of_bytes warn
  ++ bs " blocks=" ++ show_blocks (rr_blocks rr) ++ bs " binding=" ++ show_binding (rr_binding rr).

(* loadexec: LoadProg on the bytes, then Execute *)
Definition suite_loadexec (c : bytes) : bytes :=
  match load_bytes c with
  | Ok p => let g := prog_of_parts p in let rr := execute g false false in
            show_run (g_lfs g) (rr_out rr) rr ++ bs " parts=" ++ show_parts p
  | Err l => bs "class=loaderr " ++ l
  | Panic k => bs "class=panic:" ++ panic_name k
  end.

(* ---- ParseFile protocol: prediction of the final observables ---- *)
(* lexer oracle for a chunk list: tokens emitted after receiving chunk i and before receiving chunk i+1,
   and whether the lexer failed then.  Harness-level code (not part of the verified model): it steps the
   model lexer and watches how many chunks are still pending. *)
Fixpoint plan_loop (steps fuel : nat) (c : cur) (nchunks : nat) (acc : list (nat * bool)) (cur_n : nat)
  : list (nat * bool) * nat :=
  match steps with
  | O => (rev acc, cur_n)
  | S st =>
    let before_pending := length (pending c) in
    let '(go, c1) := lex_start fuel c in
    let emitted := (length (out c1) - length (out c))%nat in
    let consumed := (before_pending - length (pending c1))%nat in
    (* close `consumed` plan entries: the first keeps the tokens counted so far, the others are empty *)
    let acc1 := match consumed with
                | O => acc
                | S k => repeat (0%nat, false) k ++ (cur_n, false) :: acc
                end in
    let cur1 := match consumed with O => (cur_n + emitted)%nat | S _ => emitted end in
    if go then plan_loop st fuel c1 nchunks acc1 cur1
    else
      let failed := match out c1 with t :: _ => tok_eqb (ttyp t) tFAIL | [] => false end in
      if failed then (rev ((Nat.sub cur1 2, true) :: acc1), 0%nat)      (* tERR,tFAIL are the end marker *)
      else (rev acc1, Nat.sub cur1 1)                                   (* tokens after the last chunk, before tEOF *)
  end.
Definition lex_plan (chunks : list bytes) : list (nat * bool) * nat :=
  let n := S (S (total_len chunks)) in
  (* the first entry produced belongs to "before any chunk": drop it *)
  let '(pl, fin) := plan_loop n n (init_cur chunks) (length chunks) [] 0 in
  (tl pl, fin).

Definition rd_of (b : N) : Proto.rd :=
  if b =? 100 then Proto.RdData else if b =? 122 then Proto.RdZero else if b =? 68 then Proto.RdDataEOF
  else if b =? 101 then Proto.RdEOF else Proto.RdErr.       (* d z D e x *)
Definition show_err (e : option Proto.err) : bytes :=
  match e with
  | Some Proto.ENone => bs "nil" | Some Proto.ERead => bs "read" | Some Proto.EParse => bs "parse" | None => bs "NORESULT"
  end.
(* proto: fields  script letters ; chunk1 ; chunk2 ; ...  (the chunks the reader would deliver, in order) *)
Definition suite_proto (c : bytes) : bytes :=
  match fields c with
  | sc :: chunks =>
    let script := map rd_of sc in
    let '(plan, fin) := lex_plan chunks in
    let pr := parse_chunks [] chunks in
    let lexfail := existsb (fun x => snd x) plan in
    let syn := negb (pr_ok pr) && negb lexfail in
    let nd := length (pr_diags pr) in
    let '(res, closes, reads, raf, fin_) := Proto.predict script plan fin syn nd in
    bs "result=" ++ show_err res ++ bs " closes=" ++ dec_of_N (N.of_nat closes) ++ bs " reads=" ++ dec_of_N (N.of_nat reads)
    ++ bs " raf=" ++ dec_of_N (N.of_nat raf) ++ bs " final=" ++ bs (if fin_ then "1" else "0")
    ++ bs " lexfail=" ++ bs (if lexfail then "1" else "0")
  | _ => bs "bad-case"
  end.

(* ---- Bind: parsing the case, printing the resulting target ---- *)
Definition hd_byte (l : bytes) : N := match l with c :: _ => c | [] => 0 end.
Fixpoint read_type (fuel : nat) (d : bytes) : gotype :=
  match fuel with
  | O => TOther 0
  | S f =>
    match fields d with
    | k :: args =>
      let c := hd_byte k in
      if c =? 105 then TInt else if c =? 102 then TFloat64 else if c =? 115 then TString else if c =? 98 then TBool
      else if c =? 73 then TIface true else if c =? 74 then TIface false
      else if c =? 80 then match args with e :: _ => TPtr (read_type f e) | _ => TOther 0 end
      else if c =? 76 then match args with e :: _ => TSlice (read_type f e) | _ => TOther 0 end
      else if c =? 83 then
        match args with
        | tname :: flds :: _ =>
          TStruct tname (map (fun fd => match fields fd with
                                        | n :: flags :: tag :: ty :: _ =>
                                          Field n (match flags with 49 :: _ => true | _ => false end)
                                                  (match flags with _ :: 49 :: _ => true | _ => false end) tag (read_type f ty)
                                        | _ => Field [] false false [] (TOther 0) end) (fields flds))
        | _ => TOther 0 end
      else TOther 1
    | [] => TOther 0
    end
  end.
Fixpoint read_bval (fuel : nat) (d : bytes) : value :=
  match fuel with
  | O => VNil
  | S f =>
    match d with
    | 66 :: r => match fields r with
                 | t :: n :: fs :: _ =>
                   VBlock t n (map (fun kv => match fields kv with k :: v :: _ => (k, read_bval f v) | _ => ([], VNil) end) (fields fs))
                 | _ => VNil end
    | _ => read_value d
    end
  end.
Fixpoint show_goval (fuel : nat) (t : gotype) (v : goval) : bytes :=
  match fuel with
  | O => bs "?"
  | S f =>
    match t with
    | TInt => match v with GVal x => show_val 64 x | GPrev _ => bs "i77" | _ => bs "i0" end
    | TFloat64 => match v with GVal x => show_val 64 x | GPrev _ => bs "f4620130267728707584" | _ => bs "f0" end
    | TString => match v with GVal x => show_val 64 x | GPrev _ => bs "s7374616c65" | _ => bs "s" end
    | TBool => match v with GVal x => show_val 64 x | GPrev _ => bs "b1" | _ => bs "b0" end
    | TOther _ => bs "o"
    | TIface _ => match v with GVal x => bs "I" ++ show_val 64 x | _ => bs "nil" end
    | TPtr et => match v with GPtrTo x => bs "&" ++ show_goval f et x | _ => bs "nilptr" end
    | TSlice et => match v with GSlice l => bs "[" ++ join [32] (map (show_goval f et) l) ++ bs "]" | _ => bs "[]" end
    | TStruct _ fs =>
      let l := as_struct v fs in
      bs "{" ++ join [32] (map (fun p => show_goval f (ftyp (fst p)) (snd p)) (combine fs l)) ++ bs "}"
    end
  end.
Definition berr_name (e : berr) : bytes :=
  bs match e with
  | ENoBinding => "no-binding" | ENotPointer => "not-pointer" | ENotStruct => "not-struct" | ENotSlice => "not-slice"
  | EElemNotStruct => "elem-not-struct" | EUnknownBinding => "unknown-binding" | EBlockNotStruct => "block-not-struct"
  | ETypeName => "type-name" | EMapping => "mapping" | EUnexported => "unexported" | ENilValue => "nil-value"
  | EDupField => "dup-field" | ENilEmbedded => "nil-embedded" | ECannotSet => "cannot-set" | ETypeMismatch => "type-mismatch"
  | EBadBlockValue => "bad-block" end.
(* a target holding previous content: every settable scalar (exported, or reached through an embedded struct)
   holds 77 / 7.5 / "stale" / true; pointers, slices, interfaces stay nil *)
Fixpoint prefill (fuel : nat) (t : gotype) : goval :=
  match fuel with
  | O => GZero
  | S f =>
    match t with
    | TInt | TFloat64 | TString | TBool => GPrev 1
    | TStruct _ fs => GStruct (map (fun fld => if fexp fld || femb fld then prefill f (ftyp fld) else GZero) fs)
    | _ => GZero
    end
  end.

(* bind: fields  mode ; type ; binding kind ; blocks...   (targets start from zero values, mode q: prefilled) *)
Definition suite_bind (c : bytes) : bytes :=
  match fields c with
  | mode :: ty :: bk :: blks =>
    let t := read_type 32 ty in
    let m := hd_byte mode in
    let tg := if m =? 110 then TgtNilIface else if m =? 118 then TgtValue t GZero
              else if m =? 122 then TgtNilPtr t else if m =? 113 then TgtPtr t (prefill 32 t) else TgtPtr t GZero in
    let k := hd_byte bk in
    let b := if k =? 110 then BdNone else if k =? 115 then BdStruct (read_bval 32 (hd [] blks))
             else if k =? 108 then BdSlice (map (read_bval 32) blks) else BdUnknown in
    match bind tg b with
    | BOk (GPtrTo v) => bs "ok " ++ show_goval 32 t v
    | BOk v => bs "ok? " ++ show_goval 32 t v
    | BErr e => bs "err " ++ berr_name e
    | BPanic => bs "panic"
    end
  | _ => bs "bad-case"
  end.

(* cli: fields = argv; prints the parsed flags or the usage error class *)
Definition suite_cliargs (c : bytes) : bytes :=
  let b (x : bool) := if x then [49] else [48] in
  match Cli.parse_args (fields c) with
  | inl (Cli.UUnknownFlag a) => bs "usage unknown-flag " ++ hex_of_bytes a
  | inl Cli.UTooMany => bs "usage too-many"
  | inl Cli.UBdumpName => bs "usage bdump-name"
  | inl Cli.UConflict => bs "usage conflict"
  | inr a => bs "ok file=" ++ hex_of_bytes (Cli.a_file a) ++ bs " d=" ++ b (Cli.a_disasm a) ++ bs " t=" ++ b (Cli.a_trace a)
             ++ bs " r=" ++ b (Cli.a_result a) ++ bs " s=" ++ b (Cli.a_stats a) ++ bs " bdump=" ++ b (Cli.a_bdump a)
             ++ bs " bload=" ++ b (Cli.a_bload a) ++ bs " bdumpfile=" ++ hex_of_bytes (Cli.a_bdumpFile a)
             ++ bs " bloadfile=" ++ hex_of_bytes (Cli.a_bloadFile a) ++ bs " help=" ++ b (Cli.a_help a)
  end.

(* clirun: fields = argv-list ; stdin ; files (name, content, name, content ...) ; target kind of the dump file (o / c / w).
   prints: status, stdout (bytes before any -r lines), whether -r lines follow, the file written, the error class *)
Definition suite_clirun (c : bytes) : bytes :=
  match fields c with
  | argv :: stdin :: files :: tk :: _ =>
    let fix pairs (l : list bytes) : list (bytes * bytes) :=
      match l with k :: v :: r => (k, v) :: pairs r | _ => [] end in
    let t := hd_byte tk in
    let w := mkWorld stdin (pairs (fields files))
                     (fun _ => if t =? 99 then TgCreateFails else if t =? 119 then TgWriteFails else TgOk) in
    match cli_main (fields argv) w with
    | MUsage _ => bs "status=2 usage"
    | MHelp => bs "status=0 help"
    | MRun r =>
      bs "status=" ++ dec_of_N (cr_status r) ++ bs " stdout=" ++ hex_of_bytes (out_bytes (cr_stdout r))
      ++ bs " r=" ++ (match cr_result r with Some _ => [49] | None => [48] end)
      ++ bs " written=" ++ (match cr_written r with Some (n, b) => hex_of_bytes n ++ [58] ++ hex_of_bytes b | None => [45] end)
      ++ bs " err=" ++ bs (match cr_err r with
                           | None => "none" | Some EOpen => "open" | Some (EParse _) => "parse" | Some (ELoad _) => "load"
                           | Some EDumpCreate => "dump-create" | Some EDumpWrite => "dump-write" | Some (ERuntime _ _) => "runtime"
                           | Some (EInternal _) => "internal" | Some (EModel _) => "MODEL" end)
    end
  | _ => bs "bad-case"
  end.

(* verify: the bytecode verifier on program parts (as produced by the REAL compiler) *)
Definition suite_verify (c : bytes) : bytes :=
  if verify (prog_of_parts (read_parts (fields c))) then bs "verified" else bs "REJECTED".
(* verifysrc: parse with the model, verify, and report tosMax of a run for cross-checking *)
Definition suite_verifysrc (c : bytes) : bytes :=
  let pr := parse_whole (bs "input") c in
  if pr_ok pr then (if verify (pr_prog pr) then bs "verified" else bs "REJECTED") else bs "parse-error".

(* t2check: does the one-pass parser agree with grammar ; code generator on this source?
   (an executable test of the statement of theorem T2, run on every generated program) *)
Definition suite_t2check (c : bytes) : bytes :=
  let '(ts, _) := lex [c] in
  let ps := parse_tokens ts in
  let accepted := negb (hadError ps) in
  match ast_program ts with
  | None => if accepted then bs "DISAGREE parser-accepts grammar-rejects" else bs "agree reject"
  | Some p =>
    let cs := compile_program p in
    if hadError cs then (if accepted then bs "DISAGREE parser-accepts generator-error" else bs "agree reject(static)")
    else if negb accepted then bs "DISAGREE parser-rejects grammar-accepts"
    else if bytes_eqb (frev (code ps)) (frev (code cs)) &&
            bytes_eqb (commas (map show_value (frev (consts ps)))) (commas (map show_value (frev (consts cs))))
         then bs "agree accept" else bs "DISAGREE code"
  end.

(* t1check: does executing the generated code agree with the big-step semantics over names?
   (an executable test of the statement of theorem T1, run on every generated program) *)
Definition show_rerr (e : AstSem.rerr) : bytes :=
  match e with
  | AstSem.XTypes op a b => op ++ bs ": invalid types: " ++ vtype a ++ bs ", " ++ vtype b
  | AstSem.XType1 op a => op ++ bs ": invalid type: " ++ vtype a ++ bs ", expected number"
  | AstSem.XDivZero => bs "division by int zero"
  | AstSem.XNegRepeat => bs "MUL: negative repeat count"
  | AstSem.XExcluded => bs "EXCLUDED"
  | AstSem.XUnresolved x => bs "identifier '" ++ x ++ bs "' not resolved as var or field"
  | AstSem.XDupChild k => bs "child " ++ k ++ bs " duplicate at parent"
  | AstSem.XBindNone t => bs "bind: no blocks of type " ++ t
  | AstSem.XBindCount n t => bs "bind: found " ++ dec_of_N n ++ bs " blocks of type " ++ t ++ bs " but expected just 1"
  | AstSem.XStatic => bs "STATIC"
  end.
Definition show_selres (r : option Sem.sel_res) : bytes :=
  match r with
  | Some (Sem.SStruct b) => bs "struct " ++ show_block b
  | Some (Sem.SSlice l) => bs "slice " ++ show_blocks l
  | _ => bs "none"
  end.
Definition suite_t1check (c : bytes) : bytes :=
  let '(ts, l) := lex [c] in
  match ast_program ts with
  | None => bs "skip not-a-sentence"
  | Some p =>
    let cs := compile_program p in
    if hadError cs then bs "skip static-error" else
    let g := {| g_name := []; g_code := frev (code cs); g_consts := frev (consts cs);
                g_pos := repeat 0 (length (code cs)); g_lfs := [] |} in
    let rr := execute g false false in
    let '(sr, en) := AstSem.run_program p in
    let vm_err := match rr_res rr with
                  | VOk => bs "ok" | VErr _ m => m | VInternal m => m | VPanic k => bs "panic:" ++ panic_name k end in
    let overflow := bytes_eqb vm_err (bs "stack overflow") || bytes_eqb vm_err (bs "too many nested blocks") in
    let sem_err := match sr with AstSem.ROk _ => bs "ok" | AstSem.RErr (AstSem.XExcluded) => bs "panic:EXCLUDED" | AstSem.RErr e => show_rerr e end in
    if overflow then bs "skip limit"
    else if negb (bytes_eqb vm_err sem_err) then bs "DISAGREE result vm=" ++ vm_err ++ bs " sem=" ++ sem_err
    else if negb (bytes_eqb (print_bytes (rr_out rr)) (concat (frev (AstSem.output en)))) then bs "DISAGREE output"
    else if negb (bytes_eqb (show_blocks (rr_blocks rr)) (show_blocks (frev (AstSem.results en)))) then bs "DISAGREE blocks"
    else if negb (bytes_eqb (show_binding (rr_binding rr)) (show_selres (AstSem.binding_ en))) then bs "DISAGREE binding"
    else if negb (nlen (rr_warn rr) =? AstSem.warnings en) then bs "DISAGREE warnings"
    else bs "agree"
  end.

Definition run_suite (name : bytes) (c : bytes) : bytes :=
  if bytes_eqb name (bs "dump") then suite_dump c
  else if bytes_eqb name (bs "load") then suite_load c
  else if bytes_eqb name (bs "loadwhole") then suite_load_whole c
  else if bytes_eqb name (bs "uvarint") then suite_uvarint c
  else if bytes_eqb name (bs "lex") then suite_lex c
  else if bytes_eqb name (bs "linecol") then suite_linecol c
  else if bytes_eqb name (bs "interp") then suite_interp c
  else if bytes_eqb name (bs "parse") then suite_parse c
  else if bytes_eqb name (bs "fmtdecode") then suite_fmtdecode c
  else if bytes_eqb name (bs "fmtencode") then suite_fmtencode c
  else if bytes_eqb name (bs "loadexec") then suite_loadexec c
  else if bytes_eqb name (bs "proto") then suite_proto c
  else if bytes_eqb name (bs "bind") then suite_bind c
  else if bytes_eqb name (bs "cliargs") then suite_cliargs c
  else if bytes_eqb name (bs "clirun") then suite_clirun c
  else if bytes_eqb name (bs "verify") then suite_verify c
  else if bytes_eqb name (bs "verifysrc") then suite_verifysrc c
  else if bytes_eqb name (bs "t2check") then suite_t2check c
  else if bytes_eqb name (bs "t1check") then suite_t1check c
  else bs "unknown-suite".
