(* Suites.v: entry points of the extracted model runner.  A case is a list of length-framed
   fields; the result is one line of bytes.  All parsing and printing is Gallina, so that the
   OCaml driver only moves bytes. *)
From BCL Require Import Model.DumpLoad Model.Lexer.
Open Scope N_scope.

Definition sp : N := 32.
Definition commas (l : list bytes) : bytes := join [44] l.

Definition show_value (v : value) : bytes :=
  match v with
  | VNil => bs "n"
  | VBool b => bs (if b then "b1" else "b0")
  | VInt z => bs "i" ++ dec_of_Z z
  | VFloat b => bs "f" ++ dec_of_N b
  | VStr s => bs "s" ++ hex_of_bytes s
  | VBlock _ _ _ => bs "BLOCK"
  end.

Definition read_value (f : bytes) : value :=
  match f with
  | 110 :: _ => VNil
  | 98 :: 49 :: _ => VBool true
  | 98 :: _ => VBool false
  | 105 :: r => VInt (znum_of r)
  | 102 :: r => VFloat (num_of r)
  | 115 :: r => VStr r               (* raw bytes in case fields *)
  | _ => VNil
  end.

Definition show_parts (p : parts) : bytes :=
  bs "name=" ++ hex_of_bytes (p_name p) ++ bs " code=" ++ hex_of_bytes (p_code p)
  ++ bs " consts=" ++ commas (map show_value (p_consts p))
  ++ bs " pos=" ++ commas (map dec_of_N (p_pos p))
  ++ bs " lfs=" ++ commas (map dec_of_N (p_lfs p)).

Definition show_outcome {A} (show : A -> bytes) (o : outcome A) : bytes :=
  match o with
  | Ok a => bs "ok " ++ show a
  | Err l => bs "err " ++ l
  | Panic k => bs "panic " ++ panic_name k
  end.

Definition nums (f : bytes) : list N := map num_of (fields f).

Definition read_parts (fs : list bytes) : parts :=
  match fs with
  | name :: code :: consts :: pos :: lfs :: _ =>
      {| p_name := name; p_code := code; p_consts := map read_value (fields consts);
         p_pos := nums pos; p_lfs := nums lfs |}
  | _ => {| p_name := []; p_code := []; p_consts := []; p_pos := []; p_lfs := [] |}
  end.

Definition suite_dump (c : bytes) : bytes :=
  show_outcome hex_of_bytes (dump (read_parts (fields c))).
Definition suite_load (c : bytes) : bytes :=
  show_outcome show_parts (load_chunks (fields c)).
Definition suite_load_whole (c : bytes) : bytes :=
  show_outcome show_parts (load_bytes c).
Definition suite_uvarint (c : bytes) : bytes :=
  let x := num_of c in
  hex_of_bytes (uv_enc x) ++ [sp] ++
  match uv_dec (uv_enc x) with Some (y, n) => dec_of_N y ++ [sp] ++ dec_of_N (N.of_nat n) | None => bs "none" end.

Definition show_lexerr (e : lexerr) : bytes :=
  match e with
  | LE_expected_char r => bs "expected-" ++ dec_of_N r
  | LE_unknown_char r => bs "unknown-" ++ dec_of_N r
  | LE_invalid_syntax t => bs "syntax-" ++ hex_of_bytes t
  | LE_dot_digits => bs "dot"
  | LE_exp_digits => bs "exp"
  | LE_unterminated => bs "unterminated"
  end.
Definition show_token (t : token) : bytes :=
  tok_name (ttyp t) ++ [58] ++
  match terr t with Some e => show_lexerr e | None => hex_of_bytes (tval t) end
  ++ [58] ++ dec_of_N (tpos t).
Definition suite_lex (c : bytes) : bytes :=
  let '(ts, l) := lex (fields c) in
  bs "toks=" ++ commas (map show_token ts) ++ bs " lfs=" ++ commas (map dec_of_N l).
Definition suite_linecol (c : bytes) : bytes :=
  match fields c with
  | l :: p :: _ => let '(ln, col) := line_col_at (nums l) (num_of p) in dec_of_N ln ++ [58] ++ dec_of_Z col
  | _ => bs "bad-case"
  end.

Definition run_suite (name : bytes) (c : bytes) : bytes :=
  if bytes_eqb name (bs "dump") then suite_dump c
  else if bytes_eqb name (bs "load") then suite_load c
  else if bytes_eqb name (bs "loadwhole") then suite_load_whole c
  else if bytes_eqb name (bs "uvarint") then suite_uvarint c
  else if bytes_eqb name (bs "lex") then suite_lex c
  else if bytes_eqb name (bs "linecol") then suite_linecol c
  else bs "unknown-suite".
