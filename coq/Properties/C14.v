(* C14: placeholder for the layout theorems (being proved); the tie obligations of the numbering
   are Proofs/TieFormat.v; here a concrete instance of decode (encode f) = f. *)
From BCL Require Import Spec.Format.
Open Scope N_scope.
Example C14_example :
  let f := {| f_name := [110]; f_code := [9; 0; 2; 1]; f_consts := [VStr [97]; VInt (-5); VBool true; VNil; VFloat 4609434218613702656];
              f_pos := [3; 3; 300; 70000]; f_lfs := [5] |} in
  decode (encode f) = Some (f, []).
Proof. vm_compute. reflexivity. Qed.
Print Assumptions C14_example.
