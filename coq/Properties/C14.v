(* C14: The version 1.1 bytecode file format is stable.

   Spec/Format.v is the documented layout (encoder and an independent decoder written from the
   documentation); the theorems say that Dump writes exactly that layout, that the independent
   decoder recovers exactly the program's parts, that minor version 0 files still load, and that
   the numbering found in the Go source TODAY (Gen/GenTables.v, regenerated on every run) is the
   literal version-1.1 numbering.  The recorded corpus (corpus/v11) is the executable half. *)
From Coq Require Import List NArith String.
From BCL Require Import Model.DumpLoad Spec.Format Proofs.EncodingProofs Proofs.DumpLoadProofs Proofs.FormatProofs.
From BCL Require Gen.GenTables Spec.Pinned Proofs.TieFormat.
Import ListNotations.
Open Scope N_scope.

Theorem C14_layout : forall p b, wf_parts p -> dump p = Ok b -> b = encode (file_of p).
Proof. exact FormatProofs.C14_layout. Qed.
Print Assumptions C14_layout.

Theorem C14_decode_encode : forall f rest, wf_parts (parts_of f) -> decode (encode f ++ rest) = Some (f, rest).
Proof. exact FormatProofs.C14_decode_encode. Qed.
Print Assumptions C14_decode_encode.

Theorem C14_decode_dump : forall p b, wf_parts p -> dump p = Ok b -> decode b = Some (file_of p, []).
Proof. exact FormatProofs.C14_decode_dump. Qed.
Print Assumptions C14_decode_dump.

Theorem C14_minor_compat : forall p b, wf_parts p -> dump p = Ok b ->
  exists rest, b = 252 :: 108 :: 1 :: 1 :: rest /\ load_bytes (252 :: 108 :: 1 :: 0 :: rest) = Ok p
               /\ decode (252 :: 108 :: 1 :: 0 :: rest) = Some (file_of p, []).
Proof. exact FormatProofs.C14_minor_compat. Qed.
Print Assumptions C14_minor_compat.

Theorem C14_jump_operands : forall x rest, x < 65536 -> u16_dec (u16_enc x ++ rest) = Some x.
Proof. exact FormatProofs.C14_jump_operands. Qed.
Print Assumptions C14_jump_operands.

(* the numbering in today's Go source is the version 1.1 numbering, literally *)
Theorem C14_numbering :
  GenTables.opcodes =
    [("opNOP", 0); ("opRET", 1); ("opPRINT", 2); ("opSETLOCAL", 3); ("opGETLOCAL", 4); ("opDEFBLOCK", 5);
     ("opENDBLOCK", 6); ("opSETFIELD", 7); ("opGETFIELD", 8); ("opCONST", 9); ("opNIL", 10); ("opZERO", 11);
     ("opONE", 12); ("opTRUE", 13); ("opFALSE", 14); ("opNOT", 15); ("opEQ", 16); ("opLT", 17); ("opGT", 18);
     ("opADD", 19); ("opSUB", 20); ("opMUL", 21); ("opDIV", 22); ("opNEG", 23); ("opUNPLUS", 24); ("opJUMP", 25);
     ("opLOOP", 26); ("opJFALSE", 27); ("opPOP", 28); ("opPOPN", 29); ("opBIND", 30)]%string
  /\ GenTables.typecodes = [("typeNIL", 0); ("typeINT", 1); ("typeFLOAT", 2); ("typeSTR", 3); ("typeBOOL", 4)]%string
  /\ GenTables.bind_selectors = [("bindOne", 1); ("bindFirst", 2); ("bindLast", 3); ("bindAll", 15)]%string
  /\ GenTables.bind_targets = [("bindStruct", 16); ("bindSlice", 32)]%string
  /\ GenTables.magic = [252; 108]
  /\ TieFormat.get "bytecodeMajor" GenTables.constants = Some 1 /\ TieFormat.get "bytecodeMinor" GenTables.constants = Some 1
  /\ TieFormat.get "jumpByteLength" GenTables.constants = Some 2.
Proof.
  rewrite TieFormat.tie_opcodes, TieFormat.tie_typecodes, TieFormat.tie_bind_selectors, TieFormat.tie_bind_targets,
          TieFormat.tie_magic.
  destruct TieFormat.tie_version as (A & B & C). rewrite A, B, C.
  repeat split; reflexivity.
Qed.
Print Assumptions C14_numbering.

(* non-vacuity *)
Example C14_example :
  let f := {| f_name := [110]; f_code := [9; 0; 2; 1]; f_consts := [VStr [97]; VInt (-5); VBool true; VNil; VFloat 4609434218613702656];
              f_pos := [3; 3; 300; 70000]; f_lfs := [5] |} in
  decode (encode f) = Some (f, []).
Proof. vm_compute. reflexivity. Qed.
