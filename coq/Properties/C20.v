(* C20: Layout, comments and redundant parentheses never change meaning .

   A '#' comment ends at the next CR or LF and nowhere else (any bytes, including multi-byte and invalid
   UTF-8, quotes and keywords inside); nothing between the quotes of a string literal is layout; any
   amount of any of the eight whitespace characters between tokens produces no token.  Each statement
   holds for every chunking of the input (the *_chunked forms).  That redundant parentheses
   change nothing follows from T2 (proved): the tree of Spec/Syntax.v has no parenthesis node
   (C20_paren_is_transparent, C20_paren_atom: parentheses around a single-token operand, with fuel) and two
   token lists with the same tree compile to the same program (C20_same_tree_same_program).  The grammar never
   looks at token positions (C20_tree_ignores_positions), so two sources whose token sequences agree in type and
   text -- which is all that layout and comments can leave different, by the byte-level theorems above --
   are accepted together and compile to the same code and constants (C20_layout_irrelevant).  The bridge from bytes to
   tokens is Proofs/LexLayout.v (on top of LexFuel.v: more fuel never changes the lexer's result; LexShift.v: the
   lexer's tokens do not depend on the absolute position; LexLocal.v: chunks never asked for do not matter):
   `layout` is any mix of the eight whitespace characters and '#' comments ended by CR or LF; leading layout
   changes nothing (C20_leading_layout); at an insertion point certified by one computation on the PREFIX
   (`sep_check`: the lexer stands at a token start after the prefix whatever layout character follows) any
   non-empty layout can be replaced by any other, and where the prefix ends in a token without look-ahead also
   removed or inserted (C20_layout_any, C20_layout_any_or_none) -- for every continuation of the source, and the
   compiled code and constants are then equal (C20_layout_any_compiles).  The theorems are universal in the
   layouts and in the continuation; the insertion point is certified per prefix (no syntactic criterion such as
   "the prefix ends in ';'" is proved).  Redundant parentheses (Proofs/Parens.v): every call of the expression
   grammar consumes a complete expression (C20_paren_subexpr: wrapping exactly the tokens one call consumed in '(' ')'
   gives the same tree at every level), doubled parentheses, parenthesised right-hand sides of var / print / eval /
   assignment / expression statements, and for whole programs C20_paren_program: inserting one pair around a node of
   the parse (the context relation `PT`, whose constructors walk from the root to the parenthesised call; that it is
   exactly "insert a pair around a segment" is `PT_ins`) leaves the tree, hence (C20_parens_irrelevant) the compiled
   code and constants unchanged.  Where parentheses are NOT redundant the trees differ (`ex_not_redundant`).  The
   `PT` witness is a hypothesis; for concrete programs it is built by constructors and reflexivity. *)
From BCL Require Import Model.Lexer Lib.Strconv Proofs.LexerProofs Proofs.LayoutProofs.
Open Scope N_scope.
From BCL Require Import Model.Compile Spec.Syntax Proofs.ParserInvProofs Proofs.T2Proofs Proofs.Language.

From BCL Require Import Model.Api Proofs.LayoutTree.
From BCL Require Import Proofs.LexFuel Proofs.LexShift Proofs.LexLocal Proofs.LexLayout.
From BCL Require Import Proofs.Parens.
From BCL Require Import Proofs.LayoutProofs Proofs.LayoutTree Proofs.LexLayout Proofs.LexWrite Proofs.LexSound.

Theorem C20_comment_extent : forall body e rest c fuel,
  pending c = [] -> after c = body ++ e :: rest -> (e = 10 \/ e = 13) ->
  (forall b, In b body -> b <> 10 /\ b <> 13) ->
  (length body + 1 <= fuel)%nat ->
  lex_line_comment fuel c = (true, mk [] (e :: rest) (gpos c + nlen body) 1 (lfs c) (out c)).
Proof. first [exact LayoutProofs.C20_comment_extent | apply LayoutProofs.C20_comment_extent]. Qed.
Print Assumptions C20_comment_extent.

Theorem C20_comment_extent_eof : forall body c fuel,
  pending c = [] -> after c = body ->
  (forall b, In b body -> b <> 10 /\ b <> 13) ->
  (length body + 1 <= fuel)%nat ->
  lex_line_comment fuel c = (true, mk [] [] (gpos c + nlen body) 0 (lfs c) (out c)).
Proof. first [exact LayoutProofs.C20_comment_extent_eof | apply LayoutProofs.C20_comment_extent_eof]. Qed.
Print Assumptions C20_comment_extent_eof.

Theorem C20_comment_extent_chunked : forall body tail c fuel,
  unread c = body ++ tail -> eol_or_end tail ->
  (forall b, In b body -> b <> 10 /\ b <> 13) ->
  (length body + 1 <= fuel)%nat ->
  fst (lex_line_comment fuel c) = true /\
  abs (snd (lex_line_comment fuel c)) = (gpos c + nlen body, [], tail, width_at tail, out c).
Proof. first [exact LayoutProofs.C20_comment_extent_chunked | apply LayoutProofs.C20_comment_extent_chunked]. Qed.
Print Assumptions C20_comment_extent_chunked.

Theorem C20_string_opaque : forall body rest c fuel,
  pending c = [] -> before c = [34] -> after c = body ++ 34 :: rest ->
  (forall b, In b body -> b <> 34 /\ b <> 92 /\ b <> 10) ->
  first_not_alnum rest ->
  (length body + 1 <= fuel)%nat ->
  lex_quote fuel c =
  (true, mk [] rest (gpos c + nlen body + 1) (snd (decode_rune rest)) (lfs c)
            ({| ttyp := tSTR; tval := 34 :: body ++ [34]; terr := None;
                tpos := gpos c + nlen body + 1 |} :: out c)).
Proof. first [exact LayoutProofs.C20_string_opaque | apply LayoutProofs.C20_string_opaque]. Qed.
Print Assumptions C20_string_opaque.

Theorem C20_string_opaque_chunked : forall body rest c fuel,
  before c = [34] -> unread c = body ++ 34 :: rest ->
  (forall b, In b body -> b <> 34 /\ b <> 92 /\ b <> 10) ->
  first_not_alnum rest ->
  (length body + 1 <= fuel)%nat ->
  fst (lex_quote fuel c) = true /\
  abs (snd (lex_quote fuel c)) =
    (gpos c + nlen body + 1, [], rest, snd (decode_rune rest),
     {| ttyp := tSTR; tval := 34 :: body ++ [34]; terr := None;
        tpos := gpos c + nlen body + 1 |} :: out c).
Proof. first [exact LayoutProofs.C20_string_opaque_chunked | apply LayoutProofs.C20_string_opaque_chunked]. Qed.
Print Assumptions C20_string_opaque_chunked.

(* the value of such a literal is its body, byte for byte *)
Theorem C20_unquote_plain : forall body,
  (forall b, In b body -> b < 128 /\ b <> 10 /\ b <> 34 /\ b <> 92) ->
  unquote (34 :: body ++ [34]) = Some body.
Proof. first [exact LayoutProofs.unquote_plain_gen | apply LayoutProofs.unquote_plain_gen]. Qed.
Print Assumptions C20_unquote_plain.

Theorem C20_space_run : forall parts rest c fuel,
  pending c = [] -> after c = concat parts ++ rest ->
  parts <> [] -> Forall ws_char parts ->
  is_space (peek_rune rest) = false ->
  (length parts <= fuel)%nat ->
  lex_start fuel c =
  (true, mk [] rest (gpos c + nlen (concat parts)) (snd (decode_rune rest)) (lfs c) (out c)).
Proof. first [exact LayoutProofs.C20_space_run | apply LayoutProofs.C20_space_run]. Qed.
Print Assumptions C20_space_run.

Theorem C20_space_run_chunked : forall parts rest c fuel,
  unread c = concat parts ++ rest ->
  parts <> [] -> Forall ws_char parts ->
  is_space (peek_rune rest) = false ->
  (length parts <= fuel)%nat ->
  fst (lex_start fuel c) = true /\
  abs (snd (lex_start fuel c)) =
    (gpos c + nlen (concat parts), [], rest, snd (decode_rune rest), out c).
Proof. first [exact LayoutProofs.C20_space_run_chunked | apply LayoutProofs.C20_space_run_chunked]. Qed.
Print Assumptions C20_space_run_chunked.

(* the eight whitespace characters *)
Theorem C20_ws_chars : ws_chars = map encode_rune [32; 9; 11; 12; 10; 13; 133; 160].
Proof. first [exact LayoutProofs.ws_chars_encode | apply LayoutProofs.ws_chars_encode]. Qed.
Print Assumptions C20_ws_chars.

(* two token lists with the same tree compile to the same code, constants and identifier table *)
Theorem C20_same_tree_same_program : forall ts1 ts2 p,
  lex_shape ts1 -> lex_shape ts2 ->
  ast_program ts1 = Some p -> ast_program ts2 = Some p ->
  hadError (compile_program p) = false ->
  hadError (parse_tokens ts1) = false /\ hadError (parse_tokens ts2) = false /\
  code (parse_tokens ts1) = code (parse_tokens ts2) /\
  consts (parse_tokens ts1) = consts (parse_tokens ts2) /\
  identRefs (parse_tokens ts1) = identRefs (parse_tokens ts2).
Proof. first [exact Language.same_tree_same_program | apply Language.same_tree_same_program]. Qed.
Print Assumptions C20_same_tree_same_program.

(* '(' e ')' in operand position contributes exactly the tree of e: parentheses leave no node *)
Theorem C20_paren_is_transparent : forall f q lp r e rp r',
  ttyp lp = tLPAREN -> ttyp rp = tRPAREN ->
  pexpr f lvl_assign r = Some (e, rp :: r') ->
  pexpr (S f) q (lp :: r) =
    match ploop f q e r' with
    | Some (e', r2) => if (q <=? lvl_assign)%nat && tok_eqb (hd_typ r2) tEQ then None else Some (e', r2)
    | None => None
    end.
Proof. first [exact Language.paren_is_transparent | apply Language.paren_is_transparent]. Qed.
Print Assumptions C20_paren_is_transparent.

Theorem C20_tree_ignores_positions : forall ts1 ts2,
  map strip ts1 = map strip ts2 -> ast_program ts1 = ast_program ts2.
Proof. first [exact LayoutTree.ast_ignores_positions | apply LayoutTree.ast_ignores_positions]. Qed.
Print Assumptions C20_tree_ignores_positions.

Theorem C20_same_tokens_same_program : forall ts1 ts2,
  lex_shape ts1 -> map strip ts1 = map strip ts2 ->
  hadError (parse_tokens ts1) = false -> oof (parse_tokens ts1) = false ->
  ppanic (parse_tokens ts1) = false ->
  hadError (parse_tokens ts2) = false /\
  code (parse_tokens ts1) = code (parse_tokens ts2) /\
  consts (parse_tokens ts1) = consts (parse_tokens ts2) /\
  identRefs (parse_tokens ts1) = identRefs (parse_tokens ts2).
Proof. first [exact LayoutTree.same_tokens_same_program | apply LayoutTree.same_tokens_same_program]. Qed.
Print Assumptions C20_same_tokens_same_program.

Theorem C20_layout_irrelevant : forall n1 n2 src1 src2,
  map strip (fst (lex [src1])) = map strip (fst (lex [src2])) ->
  pr_ok (parse_whole n1 src1) = true -> pr_oof (parse_whole n1 src1) = false ->
  pr_panic (parse_whole n1 src1) = false ->
  pr_ok (parse_whole n2 src2) = true /\ pr_oof (parse_whole n2 src2) = false /\
  pr_panic (parse_whole n2 src2) = false /\
  g_code (pr_prog (parse_whole n1 src1)) = g_code (pr_prog (parse_whole n2 src2)) /\
  g_consts (pr_prog (parse_whole n1 src1)) = g_consts (pr_prog (parse_whole n2 src2)).
Proof. first [exact LayoutTree.layout_irrelevant | apply LayoutTree.layout_irrelevant]. Qed.
Print Assumptions C20_layout_irrelevant.

Theorem C20_paren_atom : forall f g q lp x rp r a e r',
  ttyp lp = tLPAREN -> ttyp rp = tRPAREN -> atom_of x = Some a -> as_operand q x r ->
  (f + 2 <= g)%nat ->
  pexpr f q (x :: r) = Some (e, r') ->
  pexpr g q (lp :: x :: rp :: r) = Some (e, r').
Proof. first [exact LayoutTree.paren_atom_closure | apply LayoutTree.paren_atom_closure]. Qed.
Print Assumptions C20_paren_atom.

Theorem C20_leading_layout : forall ws post, layout ws ->
  map nopos (fst (lex [ws ++ post])) = map nopos (fst (lex [post])).
Proof. first [exact LexLayout.leading_layout | apply LexLayout.leading_layout]. Qed.
Print Assumptions C20_leading_layout.

Theorem C20_only_layout : forall ws, layout_end ws ->
  map nopos (fst (lex [ws])) = map nopos (fst (lex [[]])).
Proof. first [exact LexLayout.only_layout | apply LexLayout.only_layout]. Qed.
Print Assumptions C20_only_layout.

Theorem C20_layout_replace : forall pre d ws1 ws2 post,
  boundary pre d -> layout (d ++ ws1) -> layout (d ++ ws2) ->
  map nopos (fst (lex [pre ++ d ++ ws1 ++ post])) = map nopos (fst (lex [pre ++ d ++ ws2 ++ post])).
Proof. first [exact LexLayout.layout_replace | apply LexLayout.layout_replace]. Qed.
Print Assumptions C20_layout_replace.

Theorem C20_layout_insertion : forall pre ws post,
  boundary pre [] -> layout ws ->
  map strip (fst (lex [pre ++ ws ++ post])) = map strip (fst (lex [pre ++ post])).
Proof. first [exact LexLayout.layout_insertion | apply LexLayout.layout_insertion]. Qed.
Print Assumptions C20_layout_insertion.

Theorem C20_layout_any : forall pre ws1 ws2 post,
  sep_check false pre = true -> layout ws1 -> ws1 <> [] -> layout ws2 -> ws2 <> [] ->
  map strip (fst (lex [pre ++ ws1 ++ post])) = map strip (fst (lex [pre ++ ws2 ++ post])).
Proof. first [exact LexLayout.layout_any | apply LexLayout.layout_any]. Qed.
Print Assumptions C20_layout_any.

Theorem C20_layout_any_or_none : forall pre ws1 ws2 post,
  sep_check true pre = true -> layout ws1 -> layout ws2 ->
  map strip (fst (lex [pre ++ ws1 ++ post])) = map strip (fst (lex [pre ++ ws2 ++ post])).
Proof. first [exact LexLayout.layout_any_or_none | apply LexLayout.layout_any_or_none]. Qed.
Print Assumptions C20_layout_any_or_none.

Theorem C20_layout_any_compiles : forall n1 n2 pre ws1 ws2 post,
  sep_check false pre = true -> layout ws1 -> ws1 <> [] -> layout ws2 -> ws2 <> [] ->
  let src1 := pre ++ ws1 ++ post in
  let src2 := pre ++ ws2 ++ post in
  pr_ok (parse_whole n1 src1) = true -> pr_oof (parse_whole n1 src1) = false ->
  pr_panic (parse_whole n1 src1) = false ->
  pr_ok (parse_whole n2 src2) = true /\ pr_oof (parse_whole n2 src2) = false /\
  pr_panic (parse_whole n2 src2) = false /\
  g_code (pr_prog (parse_whole n1 src1)) = g_code (pr_prog (parse_whole n2 src2)) /\
  g_consts (pr_prog (parse_whole n1 src1)) = g_consts (pr_prog (parse_whole n2 src2)).
Proof. first [exact LexLayout.layout_any_compiles | apply LexLayout.layout_any_compiles]. Qed.
Print Assumptions C20_layout_any_compiles.

Theorem C20_boundary_check_sound : forall pre d, boundary_check pre d = true -> boundary pre d.
Proof. first [exact LexLayout.boundary_check_sound | apply LexLayout.boundary_check_sound]. Qed.
Print Assumptions C20_boundary_check_sound.

Theorem C20_lexer_fuel_irrelevant : forall all s s' f f' c,
  Inv all c -> BG c ->
  (U c < s)%nat -> (U c < s')%nat -> (U c < f)%nat -> (U c < f')%nat ->
  lex_run s f c = lex_run s' f' c.
Proof. first [exact LexFuel.lex_run_stable | apply LexFuel.lex_run_stable]. Qed.
Print Assumptions C20_lexer_fuel_irrelevant.

Theorem C20_lexer_position_irrelevant : forall steps fuel c1 c2, ShU c1 c2 ->
  ShU (lex_run steps fuel c1) (lex_run steps fuel c2).
Proof. first [exact LexShift.lex_run_shU | apply LexShift.lex_run_shU]. Qed.
Print Assumptions C20_lexer_position_irrelevant.

Theorem C20_paren_subexpr : forall f q ts e r lp rp, ttyp lp = tLPAREN -> ttyp rp = tRPAREN ->
  pexpr f q ts = Some (e, r) ->
  exists seg, ts = seg ++ r /\
    pexpr f lvl_assign (seg ++ rp :: r) = Some (e, rp :: r) /\
    forall g, (f < g)%nat -> pexpr g q (lp :: seg ++ rp :: r) = Some (e, r).
Proof. first [exact Parens.paren_subexpr | apply Parens.paren_subexpr]. Qed.
Print Assumptions C20_paren_subexpr.

Theorem C20_paren_subexpr_eq : forall f g q seg r e lp rp, ttyp lp = tLPAREN -> ttyp rp = tRPAREN ->
  pexpr f q (seg ++ r) = Some (e, r) -> (f < g)%nat ->
  pexpr g q (lp :: seg ++ rp :: r) = pexpr g q (seg ++ r).
Proof. first [exact Parens.paren_subexpr_eq | apply Parens.paren_subexpr_eq]. Qed.
Print Assumptions C20_paren_subexpr_eq.

Theorem C20_paren_double : forall f g q lp lp' seg rp' rp r e,
  ttyp lp = tLPAREN -> ttyp lp' = tLPAREN -> ttyp rp' = tRPAREN -> ttyp rp = tRPAREN ->
  pexpr f lvl_assign (seg ++ rp :: r) = Some (e, rp :: r) -> (f + 2 <= g)%nat ->
  pexpr (S g) q (lp :: (lp' :: seg ++ [rp']) ++ rp :: r) = pexpr (S g) q (lp :: seg ++ rp :: r).
Proof. first [exact Parens.paren_double | apply Parens.paren_double]. Qed.
Print Assumptions C20_paren_double.

Theorem C20_paren_stmt : forall f b t ts s r lp rp, ttyp lp = tLPAREN -> ttyp rp = tRPAREN ->
  ttyp t = tPRINT \/ ttyp t = tEVAL ->
  pstmt f b (t :: ts) = Some (s, r) ->
  exists seg, ts = seg ++ r /\ forall g, (f < g)%nat -> pstmt g b (t :: lp :: seg ++ rp :: r) = Some (s, r).
Proof. first [exact Parens.paren_stmt_kw | apply Parens.paren_stmt_kw]. Qed.
Print Assumptions C20_paren_stmt.

Theorem C20_paren_program : forall ts ts' p,
  PT (4 * length ts + 8) ts ts' -> ast_program ts = Some p -> ast_program ts' = Some p.
Proof. first [exact Parens.paren_program | apply Parens.paren_program]. Qed.
Print Assumptions C20_paren_program.

Theorem C20_parens_irrelevant : forall n1 n2 src1 src2,
  PT (4 * length (fst (lex [src1])) + 8) (fst (lex [src1])) (fst (lex [src2])) ->
  pr_ok (parse_whole n1 src1) = true -> pr_oof (parse_whole n1 src1) = false ->
  pr_panic (parse_whole n1 src1) = false ->
  pr_ok (parse_whole n2 src2) = true /\ pr_oof (parse_whole n2 src2) = false /\
  pr_panic (parse_whole n2 src2) = false /\
  g_code (pr_prog (parse_whole n1 src1)) = g_code (pr_prog (parse_whole n2 src2)) /\
  g_consts (pr_prog (parse_whole n1 src1)) = g_consts (pr_prog (parse_whole n2 src2)).
Proof. first [exact Parens.parens_irrelevant | apply Parens.parens_irrelevant]. Qed.
Print Assumptions C20_parens_irrelevant.

Theorem C20_expression_is_complete : forall f q ts e r, pexpr f q ts = Some (e, r) ->
  exists seg, ts = seg ++ r /\ complete seg e.
Proof. first [exact Parens.pexpr_complete | apply Parens.pexpr_complete]. Qed.
Print Assumptions C20_expression_is_complete.

(* the token texts interleaved with layout (white space and comments) ARE the source: the lexer drops and invents nothing *)
Theorem C20_lex_tiles : forall cs ts e, fst (lex cs) = ts ++ [e] -> ttyp e = tEOF ->
  exists gaps last, length gaps = length ts /\ Forall layout gaps /\ layout_end last /\
    concat (interleave (gaps ++ [last]) (map tval ts)) = concat cs.
Proof. first [exact LexSound.lex_tiles | apply LexSound.lex_tiles]. Qed.
Print Assumptions C20_lex_tiles.

Theorem C20_token_substring : forall cs t, In t (fst (lex cs)) -> ttyp t <> tERR -> ttyp t <> tFAIL ->
  exists pre post, concat cs = pre ++ tval t ++ post /\ tpos t = nlen pre + nlen (tval t).
Proof. first [exact LexSound.lex_token_substring | apply LexSound.lex_token_substring]. Qed.
Print Assumptions C20_token_substring.

Example C20_example :
  map ttyp (fst (lex [bs "print" ++ [194; 160; 11; 12] ++ bs "1 # not ; a ( token" ++ [13] ++ bs "print ""# ; ( "" "])) = [tPRINT; tINT; tPRINT; tSTR; tEOF].
Proof. vm_compute. reflexivity. Qed.
