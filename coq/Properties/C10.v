(* C10: placeholder until the soundness proof of the verifier is merged; the verifier on a compiled program. *)
From BCL Require Import Model.Api Model.Verify.
Example C10_example :
  verify (pr_prog (parse_whole (bs "input") (bs "var x = 1 and 2 or 3 def b { f = x and x } print x"))) = true.
Proof. vm_compute. reflexivity. Qed.
Print Assumptions C10_example.
