(* C10: Compiled bytecode is well-formed along every path.

   Model/Verify.v is a bytecode verifier (one forward pass; labels = (operand-stack depth, block depth)
   carried to the targets of forward jumps).  C10_check_sound: a program accepted by `verify` can only
   end by RET with both stacks empty, by a documented runtime error, or by the excluded repetition case:
   never a read outside the stack or the constant pool, a failed type assertion on a constant, a jump off
   an instruction boundary, a run off the code, or the "non-empty stack" internal error -- whichever way
   its conditional jumps go, including the operand a particular run skips (C10_both_branches).  The
   depth is the same along all paths into each instruction (C10_depth_unique).  `verify` is run on the
   code the REAL compiler produced for every generated program (certificate checking); that compiled code
   is well-formed along the path a run TAKES is also a corollary of T1 and T2 (C10_compiled_runs_clean: executing
   the code Parse produced for any accepted text ends in success, a runtime error of the language, the
   excluded repetition case or one of the two documented limits -- never an internal error or a panic site);
   the all-paths statement for compiled code is C10_compile_verifies / C10_parsed_verifies: the code generator,
   and therefore (T2) the parser, only ever produces programs the verifier accepts -- so by C10_check_sound every
   path through every compiled program, including the operands a particular run skips, is well-formed.  The
   verifier is still run on the code the REAL compiler emits for every generated program (certificate checking),
   which ties that statement to parse.go. *)
From BCL Require Import Model.Vm Model.Verify Model.Api Proofs.OptionsProofs Proofs.VerifyProofs.
Open Scope N_scope.
From BCL Require Import Model.Api Model.Compile Spec.Syntax Spec.AstSem Proofs.ParserInvProofs Proofs.T2Expr Proofs.T2Proofs Proofs.T1Expr Proofs.T1Proofs Proofs.Language.
From BCL Require Import Proofs.VerifyFrag Proofs.CompileVerifies.
From BCL Require Import Proofs.Limits.
From BCL Require Import Proofs.ParserTotal Proofs.SizeBounds.

Theorem C10_check_sound : forall p fuel tr, verify p = true ->
  let (m, r) := run_fuel fuel p tr (init_vm p) in
  match r with
  | VOk => tos m = 0 /\ btos m = 0 /\ stack m = [] /\ bstack m = [] /\ rest m = []
  | VErr _ _ => True
  | VPanic POutOfFuel => True
  | VPanic PExcluded => True
  | VPanic _ => False
  | VInternal _ => False
  end.
Proof. first [exact VerifyProofs.C10_check_sound | apply VerifyProofs.C10_check_sound]. Qed.
Print Assumptions C10_check_sound.

(* verified code only jumps forward: the fuel the API supplies is never exhausted *)
Theorem C10_terminates : forall p fuel tr, verify p = true ->
  (run_bound p <= fuel)%nat ->
  snd (run_fuel fuel p tr (init_vm p)) <> VPanic POutOfFuel.
Proof. first [exact VerifyProofs.C10_terminates | apply VerifyProofs.C10_terminates]. Qed.
Print Assumptions C10_terminates.

Theorem C10_execute : forall p tr, verify p = true ->
  let (m, r) := run_fuel (run_bound p) p tr (init_vm p) in
  match r with
  | VOk => tos m = 0 /\ btos m = 0 /\ stack m = [] /\ bstack m = [] /\ rest m = []
  | VErr _ _ => True
  | VPanic PExcluded => True
  | _ => False
  end.
Proof. first [exact VerifyProofs.C10_execute | apply VerifyProofs.C10_execute]. Qed.
Print Assumptions C10_execute.

(* acceptance yields a consistent labelling of every instruction boundary *)
Theorem C10_labelling : forall p,
  verify p = true -> exists L, well_labelled p L /\ functional L.
Proof. first [exact VerifyProofs.verify_labelling | apply VerifyProofs.verify_labelling]. Qed.
Print Assumptions C10_labelling.

(* every reachable VM state sits at a labelled boundary with exactly the labelled depths *)
Theorem C10_depth_unique : forall p, verify p = true ->
  exists L, well_labelled p L /\ functional L /\
    forall tr m, reachable p tr m ->
      In (pc m, (tos m, btos m)) L /\ tos m = nlen (stack m) /\ btos m = nlen (bstack m) /\
      rest m = code_at p (pc m).
Proof. first [exact VerifyProofs.C10_depth_unique | apply VerifyProofs.C10_depth_unique]. Qed.
Print Assumptions C10_depth_unique.

Theorem C10_depth_unique_any : forall p L o l1 l2,
  well_labelled p L -> In (o, l1) L -> In (o, l2) L -> l1 = l2.
Proof. first [exact VerifyProofs.C10_depth_unique_any | apply VerifyProofs.C10_depth_unique_any]. Qed.
Print Assumptions C10_depth_unique_any.

(* both successors of a conditional jump are checked, also the one a run does not take *)
Theorem C10_both_branches p L o d b b0 b1 r :
  well_labelled p L -> In (o, (d, b)) L -> code_at p o = opJFALSE :: b0 :: b1 :: r ->
  In (o + 3, (d, b)) L /\ In (o + 3 + (b0 * 256 + b1), (d, b)) L /\ 1 <= d.
Proof. first [exact VerifyProofs.C10_both_branches | apply VerifyProofs.C10_both_branches]. Qed.
Print Assumptions C10_both_branches.

Theorem C10_blocks_balanced : forall p tr k m, verify p = true -> reach_cnt p tr k m ->
  length (result m) = k /\ Forall isblk (result m) /\ btos m = nlen (bstack m) /\ Forall isblk (bstack m).
Proof. first [exact VerifyProofs.C10_blocks_balanced | apply VerifyProofs.C10_blocks_balanced]. Qed.
Print Assumptions C10_blocks_balanced.

Theorem C10_compiled_runs_clean : forall name src,
  let pr := parse_whole name src in
  pr_ok pr = true -> pr_oof pr = false -> pr_panic pr = false ->
  ps_constants (pr_stats pr) < 2^64 ->
  match rr_res (execute (pr_prog pr) false false) with
  | VOk | VErr _ _ | VPanic PExcluded => True
  | VPanic _ | VInternal _ => False
  end.
Proof. first [exact Language.compiled_runs_clean | apply Language.compiled_runs_clean]. Qed.
Print Assumptions C10_compiled_runs_clean.

(* every program the code generator accepts passes the verifier *)
Theorem C10_compile_verifies : forall (p : list stmt) name pos lfs,
  let cs := compile_program p in
  hadError cs = false -> nconsts cs < 2^64 ->
  length pos = length (code cs) ->
  verify {| g_name := name; g_code := rev (code cs); g_consts := rev (consts cs); g_pos := pos; g_lfs := lfs |} = true.
Proof. first [exact CompileVerifies.compile_verifies | apply CompileVerifies.compile_verifies]. Qed.
Print Assumptions C10_compile_verifies.

(* every program Parse accepts passes the verifier *)
Theorem C10_parsed_verifies : forall name src,
  let pr := parse_whole name src in
  pr_ok pr = true -> pr_oof pr = false -> pr_panic pr = false -> ps_constants (pr_stats pr) < 2^64 ->
  verify (pr_prog pr) = true.
Proof. first [exact CompileVerifies.parsed_verifies | apply CompileVerifies.parsed_verifies]. Qed.
Print Assumptions C10_parsed_verifies.

(* the verifier's labels of compiled code: maximal operand depth = need_prog, maximal block depth = nest_prog *)
Theorem C10_compile_peak : forall (p : list stmt) name pos lfs,
  let cs := compile_program p in
  hadError cs = false -> nconsts cs < 2^64 ->
  length pos = length (code cs) ->
  peak {| g_name := name; g_code := rev (code cs); g_consts := rev (consts cs); g_pos := pos; g_lfs := lfs |}
  = Some (need_prog p, nest_prog p).
Proof. first [exact Limits.compile_peak | apply Limits.compile_peak]. Qed.
Print Assumptions C10_compile_peak.

Theorem C10_no_limit_below : forall p d b, peak p = Some (d, b) -> d <= stackSize -> b <= blockStackSize ->
  forall fuel tr, ~ limit_res (snd (run_fuel fuel p tr (init_vm p))).
Proof. first [exact Limits.no_limit_below | apply Limits.no_limit_below]. Qed.
Print Assumptions C10_no_limit_below.

(* every accepted source shorter than 2^56 bytes compiles to code the verifier accepts *)
Theorem C10_parsed_verifies_input : forall name src,
  nlen src < 2^56 -> pr_ok (parse_whole name src) = true ->
  verify (pr_prog (parse_whole name src)) = true.
Proof. first [exact SizeBounds.parsed_verifies_input | apply SizeBounds.parsed_verifies_input]. Qed.
Print Assumptions C10_parsed_verifies_input.

Theorem C10_parsed_peak_input : forall name src,
  let pr := parse_whole name src in
  nlen src < 2^56 -> pr_ok pr = true ->
  exists p, ast_program (fst (lex [src])) = Some p /\ peak (pr_prog pr) = Some (need_prog p, nest_prog p).
Proof. first [exact SizeBounds.parsed_peak_input | apply SizeBounds.parsed_peak_input]. Qed.
Print Assumptions C10_parsed_peak_input.

Example C10_example :
  verify (pr_prog (parse_whole (bs "input") (bs "var x = 1 and 2 or 3 def b { f = x and x } print x"))) = true.
Proof. vm_compute. reflexivity. Qed.
