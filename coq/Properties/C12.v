(* C12: Concurrent internals and concurrent callers are free of data races (model part).

   In Model/Proto.v the shared locations are the line table (written by the lexer on every received
   chunk, read by the parser for every diagnostic, both under the mutex `mu`) and `prog` (written by
   the parser before its send on perr, read by the caller after its receive).  A state is racy when
   lexer and parser are inside the line-table critical section at once.  For this channel/mutex-only
   system that coincides with the happens-before definition; the Go memory model beyond that and the
   race detector's view are outside the model (partial).  Concurrent callers: Execute never writes a
   Prog field -- in the model `execute` is a function of the program, and C12_execute_readonly states it
   of the SOURCE: the table of assignments through a Prog in machine.go, oplogic.go, disasm.go and
   Execute/printXStats (regenerated from /repo by tools/gentables on every run) is empty, and no
   package-level variable is assigned after init. *)
From Coq Require Import List String.
From BCL Require Import Model.Proto Proofs.ProtoProofs.
From BCL Require Gen.GenTables Spec.Pinned Proofs.TieGlobals.

Theorem C12_pipeline_race_free : forall s, reachable s -> racy s = false.
Proof. exact ProtoProofs.C12_mutex. Qed.
Print Assumptions C12_pipeline_race_free.

Theorem C12_mutex_holder : forall s, reachable s ->
  (mu s = Some PL <-> l s = L_unlock) /\ (mu s = Some PP <-> p s = P_unlock) /\
  (mu s = None <-> l s <> L_unlock /\ p s <> P_unlock) /\ mu s <> Some PR /\ mu s <> Some PC.
Proof. exact ProtoProofs.C12_mutex_holder. Qed.
Print Assumptions C12_mutex_holder.

(* the caller never observes an unset prog: the write is ordered before the read by the perr rendezvous *)
Theorem C12_prog_published : forall s, reachable s -> prog_seen s <> Some false.
Proof. exact ProtoProofs.C12_prog_published. Qed.
Print Assumptions C12_prog_published.

Theorem C12_prog_seen_on_return : forall s, reachable s -> returned s = true -> prog_seen s = Some true.
Proof. exact ProtoProofs.C12_prog_seen_on_return. Qed.
Print Assumptions C12_prog_seen_on_return.

Theorem C12_execute_readonly :
  GenTables.prog_writes_in_execution = nil /\
  forallb (fun p => negb (snd p)) GenTables.globals_written_after_init = true.
Proof.
  split.
  - rewrite TieGlobals.tie_prog_readonly. exact TieGlobals.prog_readonly_in_execution.
  - rewrite TieGlobals.tie_globals. exact TieGlobals.no_global_written.
Qed.
Print Assumptions C12_execute_readonly.

(* non-vacuity: a run with diagnostics formatted while later chunks arrive reaches its end *)
Example C12_example :
  let s := exec (init [RdData; RdData; RdData] [(3, false); (3, false); (3, false)] 0 true 4) (round_robin 200) in
  final s = true /\ racy s = false /\ prog_seen s = Some true.
Proof. vm_compute. repeat split; reflexivity. Qed.
