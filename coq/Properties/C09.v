(* C09: Bytecode dump and load round trip preserves the program.

   Model: Model/DumpLoad.v (prog.go Dump/Load), Model/Encoding.v (encoding.go + sqlite4 varints),
   Model/Bufio.v (bufio.Reader of size 4096 + io.ReadFull over an arbitrary partition of the
   bytes into reads).  `parts` = what Dump writes: name, code, constants, positions, line table.
   The theorems quantify over all well-formed parts (constants in range, lengths below 2^64 --
   Examples/…_from_parse below show parser output meets this) and over all partitions of the
   dump into non-empty reads; they contain no bound on sizes. *)
From Coq Require Import Lia.
From BCL Require Import Model.DumpLoad Model.Api Proofs.EncodingProofs Proofs.BufioProofs Proofs.DumpLoadProofs Proofs.ParserInvProofs.
Open Scope N_scope.

(* Dump succeeds: the scratch buffer is always large enough, no "no space" panic *)
Theorem C09_dump_total : forall p, wf_parts p -> exists b, dump p = Ok b.
Proof. exact dump_total. Qed.
Print Assumptions C09_dump_total.

(* LoadProg of the written bytes yields the same program, however the reader hands over the bytes *)
Theorem C09_roundtrip : forall p b cs,
  wf_parts p -> dump p = Ok b ->
  Forall (fun c => c <> []) cs -> concat cs = b ->
  load_chunks cs = Ok p.
Proof.
  intros p b cs Hwf Hd Hne Hc. rewrite (load_chunks_eq cs Hne), Hc.
  exact (load_dump_bytes p b Hwf Hd).
Qed.
Print Assumptions C09_roundtrip.

(* dumping the loaded program gives the same bytes again *)
Theorem C09_redump : forall p b cs,
  wf_parts p -> dump p = Ok b -> Forall (fun c => c <> []) cs -> concat cs = b ->
  exists p', load_chunks cs = Ok p' /\ dump p' = Ok b.
Proof.
  intros p b cs Hwf Hd Hne Hc. exists p. split; [exact (C09_roundtrip p b cs Hwf Hd Hne Hc) | exact Hd].
Qed.
Print Assumptions C09_redump.

(* every constant kind and size class survives: the value codec alone *)
Theorem C09_value_roundtrip : forall v plen rest, wf_value v -> plen_ok plen v ->
  exists b, value_enc plen v = Ok b /\ value_dec (b ++ rest) = Ok (v, length b).
Proof. exact value_roundtrip. Qed.
Print Assumptions C09_value_roundtrip.

Theorem C09_uvarint_roundtrip : forall x rest, x < 2^64 ->
  uv_dec (uv_enc x ++ rest) = Some (x, length (uv_enc x)).
Proof. exact uvarint_roundtrip. Qed.
Print Assumptions C09_uvarint_roundtrip.

(* every operation Load issues on a bufio.Reader fed by ANY partition into non-empty reads equals
   the same operation on the concatenated bytes *)
Theorem C09_load_partition_independent : forall cs,
  Forall (fun c => c <> []) cs -> load_chunks cs = load_bytes (concat cs).
Proof. exact load_chunks_eq. Qed.
Print Assumptions C09_load_partition_independent.

(* what the parser produces is well-formed in the sense of the round-trip theorems (constants in range, positions and line table within the source); the two length bounds are hypotheses (a program would need more than 2^61 bytes of source to violate them) *)
Theorem C09_from_parse : forall name cs,
  3 * nlen (concat cs) < 2^64 -> nlen name < 2^64 ->
  ps_code (pr_stats (parse_chunks name cs)) < 2^64 ->
  ps_constants (pr_stats (parse_chunks name cs)) < 2^64 ->
  wf_parts (parts_of_prog (pr_prog (parse_chunks name cs))).
Proof. first [exact ParserInvProofs.parse_wf_partial | apply ParserInvProofs.parse_wf_partial]. Qed.
Print Assumptions C09_from_parse.

(* non-vacuity: a program with every constant kind, multi-byte sizes and a 300-byte string is
   well-formed and round-trips through one-byte reads *)
Definition sample : parts :=
  {| p_name := [110; 109]; p_code := [9; 0; 2; 9; 1; 2; 1];
     p_consts := [VStr (repeat 97 300); VInt (-5); VInt 9223372036854775807; VFloat 4609434218613702656;
                  VBool true; VBool false; VNil; VStr []];
     p_pos := [3; 3; 300; 70000; 70000; 16777216; 4294967296]; p_lfs := [5; 240; 241; 2288; 67824] |}.
Example C09_sample_wf : wf_parts sample.
Proof.
  unfold wf_parts, sample; cbn [p_consts p_pos p_lfs p_name p_code].
  repeat split; try (repeat constructor; cbn; lia); try (vm_compute; reflexivity).
Qed.
Example C09_sample_roundtrip :
  match dump sample with
  | Ok b => load_chunks (map (fun x => [x]) b) = Ok sample
  | _ => False
  end.
Proof. vm_compute. reflexivity. Qed.

(* ==== generated additions (tools/mkprops.py, table APPEND in tools/propstable.py) ==== *)
(* the well-formedness Dump needs, from a bound on the input length alone *)
From BCL Require Import Proofs.ParserTotal Proofs.SizeBounds.

Theorem C09_from_parse_input : forall name cs,
  nlen (concat cs) < 2^56 -> nlen name < 2^64 ->
  wf_parts (parts_of_prog (pr_prog (parse_chunks name cs))).
Proof. first [exact SizeBounds.parse_wf_input | apply SizeBounds.parse_wf_input]. Qed.
Print Assumptions C09_from_parse_input.
