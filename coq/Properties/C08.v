(* C08: Diagnostics point at the true source location (line table and line:column part; the
   statement that every diagnostic carries the end offset of the offending token is part of the
   parser theorems, see DESIGN.md section 6 C08). *)
From Coq Require Import Sorted.
From BCL Require Import Model.Api Proofs.LineCalcProofs Proofs.LexerProofs Proofs.ParserInvProofs.
Open Scope N_scope.

(* lineColAt, with its three-way case split around sort.SearchInts, computes: line = 1 + number of
   newline offsets before pos; column = distance from the last of them (pos+1 if there is none) *)
Theorem C08_linecol : forall lfs pos, sorted lfs ->
  line_col_at lfs pos =
    (1 + nlen (filter (fun a => a <? pos) lfs),
     match last_opt (filter (fun a => a <? pos) lfs) with
     | Some p => (Z.of_N pos - Z.of_N p)%Z
     | None => (Z.of_N pos + 1)%Z
     end).
Proof. exact line_col_spec. Qed.
Print Assumptions C08_linecol.

(* the line table stored in the program equals the set of newline offsets of the source,
   whatever the chunking *)
Theorem C08_lfs_is_newlines : forall cs tk,
  last_opt (fst (lex cs)) = Some tk -> ttyp tk = tEOF -> snd (lex cs) = newlines_at (concat cs) 0.
Proof. exact lex_lfs_eof. Qed.
Print Assumptions C08_lfs_is_newlines.

Theorem C08_newlines_exact : forall s off,
  newlines_at s off = map (fun i => off + N.of_nat i) (nl_indices s).
Proof. exact newlines_at_spec. Qed.
Print Assumptions C08_newlines_exact.

Theorem C08_newline_index : forall s i, In i (nl_indices s) <-> nth_error s i = Some 10.
Proof. exact nl_indices_In. Qed.
Print Assumptions C08_newline_index.

Theorem C08_lfs_sorted : forall s off, StronglySorted N.lt (newlines_at s off) /\ Forall (fun x => off <= x) (newlines_at s off).
Proof. exact newlines_at_sorted. Qed.
Print Assumptions C08_lfs_sorted.

(* a diagnostic formatted while the lexer is still ahead of the parser reads the same line:column
   as one formatted at the end: newlines at or beyond pos do not matter *)
Theorem C08_independent_of_lookahead : forall l later pos,
  sorted (l ++ later) -> (forall x, In x later -> pos <= x) -> line_col_at (l ++ later) pos = line_col_at l pos.
Proof. exact line_col_ignores_later. Qed.
Print Assumptions C08_independent_of_lookahead.

(* every token's position lies within the bytes received so far, and its text fits before it (pos = end offset) *)
Theorem C08_token_positions : forall cs, exists k,
  snd (lex cs) = newlines_at (concat (firstn k cs)) 0 /\
  forall t, In t (fst (lex cs)) ->
    tpos t <= nlen (concat (firstn k cs)) /\ nlen (tval t) <= tpos t.
Proof. first [exact ParserInvProofs.token_pos_bound_prefix | apply ParserInvProofs.token_pos_bound_prefix]. Qed.
Print Assumptions C08_token_positions.

(* every compile diagnostic carries the position of a token of the input *)
Theorem C08_diag_at_token : forall ts d, In d (log (parse_tokens ts)) ->
  d_pos d = 0 \/ exists t, In t ts /\ d_pos d = tpos t.
Proof. first [exact ParserInvProofs.diag_pos_is_token_pos | apply ParserInvProofs.diag_pos_is_token_pos]. Qed.
Print Assumptions C08_diag_at_token.

(* non-vacuity *)
Example C08_example :
  line_col_at (newlines_at (bs "ab" ++ [10] ++ bs "cde" ++ [10; 10] ++ bs "f") 0) 5 = (2, 3%Z)
  /\ snd (lex [bs "a" ++ [10]; bs "b" ++ [10]]) = [1; 3].
Proof. vm_compute. split; reflexivity. Qed.

(* ==== generated additions (tools/mkprops.py, table APPEND in tools/propstable.py) ==== *)
(* runtime errors and warnings are located through the position table of the program: one entry per code byte, each the
   end offset of a token of the source, non-decreasing along the code when token positions are *)
From BCL Require Import Model.Parser Proofs.ParserTotal Proofs.CompileVerifies Proofs.DiagProofs.
From BCL Require Import Proofs.LexMono.
From BCL Require Import Proofs.LexSound.

(* every entry of the position table is the end offset of a token the lexer delivered *)
Theorem C08_code_positions_are_token_positions : forall name cs x,
  In x (g_pos (pr_prog (parse_chunks name cs))) -> exists t, In t (fst (lex cs)) /\ tpos t = x.
Proof. first [exact DiagProofs.prog_positions_are_token_positions | apply DiagProofs.prog_positions_are_token_positions]. Qed.
Print Assumptions C08_code_positions_are_token_positions.

(* hence an offset inside the source *)
Theorem C08_code_positions_in_source : forall name cs x,
  In x (g_pos (pr_prog (parse_chunks name cs))) -> x <= nlen (concat cs).
Proof. first [exact DiagProofs.prog_positions_in_source | apply DiagProofs.prog_positions_in_source]. Qed.
Print Assumptions C08_code_positions_in_source.

(* one entry per code byte *)
Theorem C08_code_positions_length : forall name cs,
  length (g_pos (pr_prog (parse_chunks name cs))) = length (g_code (pr_prog (parse_chunks name cs))).
Proof. first [exact DiagProofs.prog_positions_length | apply DiagProofs.prog_positions_length]. Qed.
Print Assumptions C08_code_positions_length.

(* jump patching never disturbs the table *)
Theorem C08_code_positions_sorted : forall name cs, tpos_mono (fst (lex cs)) ->
  StronglySorted N.le (g_pos (pr_prog (parse_chunks name cs))).
Proof. first [exact DiagProofs.prog_positions_sorted | apply DiagProofs.prog_positions_sorted]. Qed.
Print Assumptions C08_code_positions_sorted.

(* the parser logs exactly one diagnostic per tERR token it receives, at that token's position *)
Theorem C08_diag_per_lexical_error : forall s, J s -> toks s <> [] ->
  exists errs t rest,
    toks s = errs ++ t :: rest /\ Forall (fun e => isERR e = true) errs /\ isERR t = false /\
    toks (advance s) = rest /\ cur_ (advance s) = t /\ prev (advance s) = cur_ s /\
    log (advance s) = rev (map lex_diag errs) ++ log s /\
    panicMode (advance s) = panicMode s || existsb isERR errs /\
    hadError (advance s) = hadError s || existsb isERR errs /\
    hadLexFail (advance s) = hadLexFail s || isFAIL t /\
    st_tokens (advance s) = st_tokens s + N.of_nat (S (length errs)) /\ EF s (advance s).
Proof. first [exact DiagProofs.advance_spec | apply DiagProofs.advance_spec]. Qed.
Print Assumptions C08_diag_per_lexical_error.

(* token end offsets are non-decreasing, error tokens included *)
Theorem C08_token_positions_sorted : forall cs, tpos_mono (fst (lex cs)).
Proof. first [exact LexMono.lex_tpos_mono | apply LexMono.lex_tpos_mono]. Qed.
Print Assumptions C08_token_positions_sorted.

(* hence the position table of every compiled program is sorted, unconditionally *)
Theorem C08_code_positions_sorted_all : forall name cs,
  StronglySorted N.le (g_pos (pr_prog (parse_chunks name cs))).
Proof. first [exact LexMono.prog_positions_sorted_all | apply LexMono.prog_positions_sorted_all]. Qed.
Print Assumptions C08_code_positions_sorted_all.

(* the text of a token (the one a diagnostic quotes) is the source text ending exactly at the token's position *)
Theorem C08_token_text_at_position : forall cs t, In t (fst (lex cs)) -> ttyp t <> tERR -> ttyp t <> tFAIL ->
  nlen (tval t) <= tpos t /\ tpos t <= nlen (concat cs) /\
  firstn (length (tval t)) (skipn (N.to_nat (tpos t - nlen (tval t))) (concat cs)) = tval t.
Proof. first [exact LexSound.lex_token_at | apply LexSound.lex_token_at]. Qed.
Print Assumptions C08_token_text_at_position.
