(* C08: Diagnostics point at the true source location (line table and line:column part; the
   statement that every diagnostic carries the end offset of the offending token is part of the
   parser theorems, see DESIGN.md section 6 C08). *)
From Coq Require Import Sorted.
From BCL Require Import Model.Api Proofs.LineCalcProofs Proofs.LexerProofs Proofs.ParserInvProofs.
Open Scope N_scope.

(* lineColAt, with its three-way case split around sort.SearchInts, computes: line = 1 + number of
   newline offsets before pos; column = distance from the last of them (pos+1 if there is none) *)
Theorem C08_linecol : forall lfs pos, sorted lfs ->
  line_col_at lfs pos =
    (1 + nlen (filter (fun a => a <? pos) lfs),
     match last_opt (filter (fun a => a <? pos) lfs) with
     | Some p => (Z.of_N pos - Z.of_N p)%Z
     | None => (Z.of_N pos + 1)%Z
     end).
Proof. exact line_col_spec. Qed.
Print Assumptions C08_linecol.

(* the line table stored in the program equals the set of newline offsets of the source,
   whatever the chunking *)
Theorem C08_lfs_is_newlines : forall cs tk,
  last_opt (fst (lex cs)) = Some tk -> ttyp tk = tEOF -> snd (lex cs) = newlines_at (concat cs) 0.
Proof. exact lex_lfs_eof. Qed.
Print Assumptions C08_lfs_is_newlines.

Theorem C08_newlines_exact : forall s off,
  newlines_at s off = map (fun i => off + N.of_nat i) (nl_indices s).
Proof. exact newlines_at_spec. Qed.
Print Assumptions C08_newlines_exact.

Theorem C08_newline_index : forall s i, In i (nl_indices s) <-> nth_error s i = Some 10.
Proof. exact nl_indices_In. Qed.
Print Assumptions C08_newline_index.

Theorem C08_lfs_sorted : forall s off, StronglySorted N.lt (newlines_at s off) /\ Forall (fun x => off <= x) (newlines_at s off).
Proof. exact newlines_at_sorted. Qed.
Print Assumptions C08_lfs_sorted.

(* a diagnostic formatted while the lexer is still ahead of the parser reads the same line:column
   as one formatted at the end: newlines at or beyond pos do not matter *)
Theorem C08_independent_of_lookahead : forall l later pos,
  sorted (l ++ later) -> (forall x, In x later -> pos <= x) -> line_col_at (l ++ later) pos = line_col_at l pos.
Proof. exact line_col_ignores_later. Qed.
Print Assumptions C08_independent_of_lookahead.

(* every token's position lies within the bytes received so far, and its text fits before it (pos = end offset) *)
Theorem C08_token_positions : forall cs, exists k,
  snd (lex cs) = newlines_at (concat (firstn k cs)) 0 /\
  forall t, In t (fst (lex cs)) ->
    tpos t <= nlen (concat (firstn k cs)) /\ nlen (tval t) <= tpos t.
Proof. first [exact ParserInvProofs.token_pos_bound_prefix | apply ParserInvProofs.token_pos_bound_prefix]. Qed.
Print Assumptions C08_token_positions.

(* every compile diagnostic carries the position of a token of the input *)
Theorem C08_diag_at_token : forall ts d, In d (log (parse_tokens ts)) ->
  d_pos d = 0 \/ exists t, In t ts /\ d_pos d = tpos t.
Proof. first [exact ParserInvProofs.diag_pos_is_token_pos | apply ParserInvProofs.diag_pos_is_token_pos]. Qed.
Print Assumptions C08_diag_at_token.

(* non-vacuity *)
Example C08_example :
  line_col_at (newlines_at (bs "ab" ++ [10] ++ bs "cde" ++ [10; 10] ++ bs "f") 0) 5 = (2, 3%Z)
  /\ snd (lex [bs "a" ++ [10]; bs "b" ++ [10]]) = [1; 3].
Proof. vm_compute. split; reflexivity. Qed.
