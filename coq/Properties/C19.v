(* C19: Introspection options only observe.

   Model: Model/Api.v `interpret name src d t s` (Parse + Execute with OptDisasm d, OptTrace t,
   OptStats s), output = list of tagged lines (the Go code writes all of them to the one output
   writer).  Every theorem quantifies over all sources and all eight option combinations. *)
From BCL Require Import Model.Api Proofs.OptionsProofs.
Open Scope N_scope.

(* blocks, binding, runtime error (with position), warnings, diagnostics and the whole parse result
   (compiled program, statistics) are the same with and without the options *)
Theorem C19_results_equal : forall name src d t s,
  let io := snd (interpret name src d t s) in
  let io0 := snd (interpret name src false false false) in
  fst (interpret name src d t s) = fst (interpret name src false false false) /\
  io_kind io = io_kind io0 /\ io_diags io = io_diags io0 /\ io_fail io = io_fail io0 /\
  io_blocks io = io_blocks io0 /\ io_binding io = io_binding io0 /\ io_warn io = io_warn io0 /\
  io_res io = io_res io0.
Proof. exact C19_results_equal_proj. Qed.
Print Assumptions C19_results_equal.

(* the lines printed by the program are exactly the plain run's output; the extra text is
   tagged, and only the program's own lines appear in the plain run *)
Theorem C19_print_lines : forall name src d t s,
  filter is_print (io_out (snd (interpret name src d t s))) = io_out (snd (interpret name src false false false)).
Proof. exact OptionsProofs.C19_print_lines. Qed.
Print Assumptions C19_print_lines.

Theorem C19_plain_only_prints : forall name src,
  Forall (fun e => fst e = OPrint) (io_out (snd (interpret name src false false false))).
Proof. exact plain_output_only_prints. Qed.
Print Assumptions C19_plain_only_prints.

(* the trace lists exactly the instructions executed, as many as the statistics report
   (two lines each: the stack and the instruction) *)
Theorem C19_trace_count : forall p,
  let rr := execute p true false in
  match rr_res rr with
  | VOk | VErr _ _ | VInternal _ => count is_trace (rr_out rr) = 2 * opsRead (rr_vm rr)
  | VPanic _ => True
  end.
Proof. exact OptionsProofs.C19_trace_count. Qed.
Print Assumptions C19_trace_count.

Theorem C19_no_trace_unless_asked : forall p s, count is_trace (rr_out (execute p false s)) = 0.
Proof. exact C19_no_trace_lines. Qed.
Print Assumptions C19_no_trace_unless_asked.

(* statistics: exactly the 6 parser lines and the 4 VM lines, only when asked for *)
Theorem C19_stats_lines_execute : forall p t s,
  let rr := execute p t s in
  filter is_stats (rr_out rr) = (if s then map (fun l => (OStats, l)) (xstats_lines (rr_vm rr)) else [])
  /\ count is_stats (rr_out rr) = (if s then 4 else 0).
Proof. exact OptionsProofs.C19_stats_lines_execute. Qed.
Print Assumptions C19_stats_lines_execute.

(* the trace hook cannot influence execution: for any hook that emits no program lines *)
Theorem C19_hook_irrelevant : forall fuel p tr m,
  (forall m, Forall (fun e => fst e <> OPrint) (tr m)) ->
  let (m1, r1) := run_fuel fuel p tr m in
  let (m0, r0) := run_fuel fuel p (fun _ => []) m in
  r1 = r0 /\ same_but_out m1 m0 /\ prints m1 = prints m0.
Proof. exact run_trace_irrelevant. Qed.
Print Assumptions C19_hook_irrelevant.

(* non-vacuity: a program that prints, traces 9 instructions and reports 10 statistics lines *)
Example C19_example :
  let '(_, io) := interpret (bs "input") (bs "var x = 1 print x + 2 * 3") true true true in
  match io with
  | IRun o rr => (count is_trace o, opsRead (rr_vm rr), count is_stats o, count is_print o) = (18, 9, 10, 1)
  | _ => False
  end.
Proof. vm_compute. reflexivity. Qed.
