(* C19: Introspection options only observe.

   Model: Model/Api.v `interpret name src d t s` (Parse + Execute with OptDisasm d, OptTrace t,
   OptStats s), output = list of tagged lines (the Go code writes all of them to the one output
   writer).  Every theorem quantifies over all sources and all eight option combinations. *)
From BCL Require Import Model.Api Proofs.OptionsProofs.
Open Scope N_scope.

(* blocks, binding, runtime error (with position), warnings, diagnostics and the whole parse result
   (compiled program, statistics) are the same with and without the options *)
Theorem C19_results_equal : forall name src d t s,
  let io := snd (interpret name src d t s) in
  let io0 := snd (interpret name src false false false) in
  fst (interpret name src d t s) = fst (interpret name src false false false) /\
  io_kind io = io_kind io0 /\ io_diags io = io_diags io0 /\ io_fail io = io_fail io0 /\
  io_blocks io = io_blocks io0 /\ io_binding io = io_binding io0 /\ io_warn io = io_warn io0 /\
  io_res io = io_res io0.
Proof. exact C19_results_equal_proj. Qed.
Print Assumptions C19_results_equal.

(* the lines printed by the program are exactly the plain run's output; the extra text is
   tagged, and only the program's own lines appear in the plain run *)
Theorem C19_print_lines : forall name src d t s,
  filter is_print (io_out (snd (interpret name src d t s))) = io_out (snd (interpret name src false false false)).
Proof. exact OptionsProofs.C19_print_lines. Qed.
Print Assumptions C19_print_lines.

Theorem C19_plain_only_prints : forall name src,
  Forall (fun e => fst e = OPrint) (io_out (snd (interpret name src false false false))).
Proof. exact plain_output_only_prints. Qed.
Print Assumptions C19_plain_only_prints.

(* the trace lists exactly the instructions executed, as many as the statistics report
   (two lines each: the stack and the instruction) *)
Theorem C19_trace_count : forall p,
  let rr := execute p true false in
  match rr_res rr with
  | VOk | VErr _ _ | VInternal _ => count is_trace (rr_out rr) = 2 * opsRead (rr_vm rr)
  | VPanic _ => True
  end.
Proof. exact OptionsProofs.C19_trace_count. Qed.
Print Assumptions C19_trace_count.

Theorem C19_no_trace_unless_asked : forall p s, count is_trace (rr_out (execute p false s)) = 0.
Proof. exact C19_no_trace_lines. Qed.
Print Assumptions C19_no_trace_unless_asked.

(* statistics: exactly the 6 parser lines and the 4 VM lines, only when asked for *)
Theorem C19_stats_lines_execute : forall p t s,
  let rr := execute p t s in
  filter is_stats (rr_out rr) = (if s then map (fun l => (OStats, l)) (xstats_lines (rr_vm rr)) else [])
  /\ count is_stats (rr_out rr) = (if s then 4 else 0).
Proof. exact OptionsProofs.C19_stats_lines_execute. Qed.
Print Assumptions C19_stats_lines_execute.

(* the trace hook cannot influence execution: for any hook that emits no program lines *)
Theorem C19_hook_irrelevant : forall fuel p tr m,
  (forall m, Forall (fun e => fst e <> OPrint) (tr m)) ->
  let (m1, r1) := run_fuel fuel p tr m in
  let (m0, r0) := run_fuel fuel p (fun _ => []) m in
  r1 = r0 /\ same_but_out m1 m0 /\ prints m1 = prints m0.
Proof. exact run_trace_irrelevant. Qed.
Print Assumptions C19_hook_irrelevant.

(* non-vacuity: a program that prints, traces 9 instructions and reports 10 statistics lines *)
Example C19_example :
  let '(_, io) := interpret (bs "input") (bs "var x = 1 print x + 2 * 3") true true true in
  match io with
  | IRun o rr => (count is_trace o, opsRead (rr_vm rr), count is_stats o, count is_print o) = (18, 9, 10, 1)
  | _ => False
  end.
Proof. vm_compute. reflexivity. Qed.

(* ==== generated additions (tools/mkprops.py, table APPEND in tools/propstable.py) ==== *)
(* the disassembly lists each instruction of the compiled program exactly once at its offset, the trace lists exactly
   the instructions executed, and neither can reach a panic site of the disassembler (Proofs/DisasmProofs.v) *)
From Coq Require Import Sorted.
From BCL Require Import Model.Verify Proofs.VerifyProofs Proofs.Limits Proofs.DisasmProofs.

Theorem C19_disasm_total : forall p, verify p = true -> exists ls, disasm p = Some ls.
Proof. first [exact DisasmProofs.disasm_total | apply DisasmProofs.disasm_total]. Qed.
Print Assumptions C19_disasm_total.

(* one line per instruction boundary, in order, starting at 0, consecutive offsets differing by the decoded length, the last instruction ending at the end of the code *)
Theorem C19_disasm_tiles : forall p, verify p = true ->
  exists offs ls,
    code_offsets p = Some offs /\                 (* the instruction boundaries, by decoding lengths *)
    disasm p = Some (header p ++ ls) /\
    length ls = length offs /\
    Forall2 starts_at offs ls /\
    map line_offset ls = offs /\
    (exists more, offs = 0 :: more) /\ StronglySorted N.lt offs /\ NoDup offs /\ chain p offs /\
    Forall2 (is_line p) offs ls.            (* line i is disasm_instr at offset i *)
Proof. first [exact DisasmProofs.disasm_tiles | apply DisasmProofs.disasm_tiles]. Qed.
Print Assumptions C19_disasm_tiles.

(* for every accepted source shorter than 2^56 bytes *)
Theorem C19_disasm_source : forall name src,
  nlen src < 2^56 -> pr_ok (parse_whole name src) = true ->
  let p := pr_prog (parse_whole name src) in
  exists offs ls,
    code_offsets p = Some offs /\
    disasm p = Some (header p ++ ls) /\
    length ls = length offs /\
    Forall2 starts_at offs ls /\
    map line_offset ls = offs /\
    (exists more, offs = 0 :: more) /\ StronglySorted N.lt offs /\ NoDup offs /\ chain p offs /\
    Forall2 (is_line p) offs ls.            (* line i is disasm_instr at offset i *)
Proof. first [exact DisasmProofs.disasm_source | apply DisasmProofs.disasm_source]. Qed.
Print Assumptions C19_disasm_source.

Theorem C19_interpret_disasm_lines : forall name src d t s, nlen src < 2^56 ->
  match snd (interpret name src d t s) with
  | IRun out _ =>
    exists ls, disasm (pr_prog (parse_whole name src)) = Some ls /\
               filter is_disasm out = if d then map (fun l => (ODisasm, l)) ls else []
  | IParseErr _ out => filter is_disasm out = []
  | IModelFail _ => True
  end.
Proof. first [exact DisasmProofs.interpret_disasm_lines | apply DisasmProofs.interpret_disasm_lines]. Qed.
Print Assumptions C19_interpret_disasm_lines.

Theorem C19_never_disasm_panic : forall name src d t s, nlen src < 2^56 ->
  ~ In (ODisasm, panic_marker) (io_out (snd (interpret name src d t s))).
Proof. first [exact DisasmProofs.interpret_never_disasm_panic | apply DisasmProofs.interpret_never_disasm_panic]. Qed.
Print Assumptions C19_never_disasm_panic.

(* every pc at which the VM fetches an opcode is one of the listed offsets *)
Theorem C19_run_pc_in_offsets : forall p offs, verify p = true -> code_offsets p = Some offs ->
  forall tr m, reachable p tr m -> In (pc m) offs /\ rest m = code_at p (pc m).
Proof. first [exact DisasmProofs.run_pc_in_offsets | apply DisasmProofs.run_pc_in_offsets]. Qed.
Print Assumptions C19_run_pc_in_offsets.

(* the trace is, in order, one (stack, instruction) pair per step; the instruction line is the disassembly line of that pc *)
Theorem C19_trace_lists_instructions : forall p s offs ls, verify p = true ->
  code_offsets p = Some offs -> disasm p = Some (header p ++ ls) ->
  exists steps : list (vm * bytes),
    filter is_trace (rr_out (execute p true s)) = flat_map step_out steps /\
    Forall (step_ok p offs ls) steps.
Proof. first [exact DisasmProofs.trace_lists_instructions | apply DisasmProofs.trace_lists_instructions]. Qed.
Print Assumptions C19_trace_lists_instructions.

Theorem C19_trace_source : forall name src s,
  nlen src < 2^56 -> pr_ok (parse_whole name src) = true ->
  let p := pr_prog (parse_whole name src) in
  exists offs ls steps,
    code_offsets p = Some offs /\ disasm p = Some (header p ++ ls) /\
    filter is_trace (rr_out (execute p true s)) = flat_map step_out steps /\
    Forall (step_ok p offs ls) steps.
Proof. first [exact DisasmProofs.trace_source | apply DisasmProofs.trace_source]. Qed.
Print Assumptions C19_trace_source.
