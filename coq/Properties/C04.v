(* C04: The bind statement selects exactly the designated blocks.

   Spec/Sem.select is the documented selection rule; the BIND instruction computes it over the completed
   toplevel blocks of the named type, in definition order; a warning is logged iff a binding already
   exists.  That `:all -> struct` and unknown selectors/targets are compile errors is part of the grammar
   (Spec/Syntax.pbind has no production for them) and of T2 (proved: C04_static, accepted iff a sentence);
   C04_language: for every accepted source text the binding and the warnings of the run are those of the
   big-step semantics, whose SBind case is Sem.select over the completed toplevel blocks of that type. *)
From BCL Require Import Model.Api Model.Compile Spec.Syntax Spec.AstSem Proofs.ParserInvProofs Proofs.T2Expr Proofs.T2Proofs Proofs.T1Expr Proofs.T1Proofs Proofs.Language.
From RecordUpdate Require Import RecordSet.
Import RecordSetNotations.
From BCL Require Import Model.Vm Spec.Sem Proofs.VmSpecProofs.
Open Scope N_scope.

(* for a valid selector/target byte the new binding is what Sem.select prescribes *)
Theorem C04_bind : forall p m i m1 ty opt m2 s t,
  read_uvarint (bind_warned p m) = Some (i, m1) -> get_const p i = Some (VStr ty) ->
  read_byte m1 = Some (opt, m2) ->
  sel_of opt = Some s -> tgt_of opt = Some t ->
  exec_op p opBIND m = bind_outcome p m2 ty (Sem.select s t (matching_blocks ty (result m))).
Proof. first [exact VmSpecProofs.C04_bind_spec | apply VmSpecProofs.C04_bind_spec]. Qed.
Print Assumptions C04_bind.

(* the exact order of the runtime checks *)
Theorem C04_bind_check_order : forall p m i m1 ty opt m2,
  read_uvarint (bind_warned p m) = Some (i, m1) -> get_const p i = Some (VStr ty) ->
  read_byte m1 = Some (opt, m2) ->
  let blocks := matching_blocks ty (result m) in
  exec_op p opBIND m =
  match blocks with
  | [] => bind_no_blocks p m2 ty
  | _ :: _ =>
    if negb (nlen blocks =? 1) && (N.land opt 15 =? 1) then bind_not_one p m2 ty (nlen blocks)
    else match sel_of opt, tgt_of opt with
         | Some s, Some t => bind_outcome p m2 ty (Sem.select s t blocks)
         | _, _ => bind_invalid p m2
         end
  end.
Proof. first [exact VmSpecProofs.C04_bind_spec_raw | apply VmSpecProofs.C04_bind_spec_raw]. Qed.
Print Assumptions C04_bind_check_order.

(* candidates: completed toplevel blocks of that type, in definition order *)
Theorem C04_matching_blocks : forall ty res,
  matching_blocks ty res = filter (block_of_type ty) (rev res).
Proof. first [exact VmSpecProofs.C04_matching_blocks_spec | apply VmSpecProofs.C04_matching_blocks_spec]. Qed.
Print Assumptions C04_matching_blocks.

Theorem C04_matching_blocks_in : forall ty res b,
  In b (matching_blocks ty res) <-> In b res /\ exists n fs, b = VBlock ty n fs.
Proof. first [exact VmSpecProofs.C04_matching_blocks_in | apply VmSpecProofs.C04_matching_blocks_in]. Qed.
Print Assumptions C04_matching_blocks_in.

(* every bind after the first warns, whatever its outcome *)
Theorem C04_warning_iff_rebind : forall p m,
  vwarn (fst (exec_op p opBIND m)) =
  match bind_ m with
  | BNone => vwarn m
  | _ => (pos_at p (pc m), bs "repeated bind statement, last one overrides") :: vwarn m
  end.
Proof. first [exact VmSpecProofs.C04_warning_iff_rebind | apply VmSpecProofs.C04_warning_iff_rebind]. Qed.
Print Assumptions C04_warning_iff_rebind.

Theorem C04_select_invalid_iff : forall s t l, Sem.select s t l = SInvalid <-> (l <> [] /\ s = SelAll /\ t = TStructTgt).
Proof. first [exact VmSpecProofs.select_invalid_iff | apply VmSpecProofs.select_invalid_iff]. Qed.
Print Assumptions C04_select_invalid_iff.

Theorem C04_language : forall name src,
  let pr := parse_whole name src in
  let ts := fst (lex [src]) in
  pr_ok pr = true -> pr_oof pr = false -> pr_panic pr = false ->
  ps_constants (pr_stats pr) < 2^64 ->
  exists p, ast_program ts = Some p /\
    let rr := execute (pr_prog pr) false false in
    limit_res (rr_res rr) \/
    (res_match (fst (run_program p)) (rr_res rr) /\ obs_match (snd (run_program p)) rr).
Proof. first [exact Language.bcl_language | apply Language.bcl_language]. Qed.
Print Assumptions C04_language.

Theorem C04_static : forall name src,
  let pr := parse_whole name src in
  let ts := fst (lex [src]) in
  (pr_ok pr = true /\ pr_oof pr = false /\ pr_panic pr = false) <->
  (exists p, ast_program ts = Some p /\ hadError (compile_program p) = false).
Proof. first [exact Language.bcl_accepts_iff | apply Language.bcl_accepts_iff]. Qed.
Print Assumptions C04_static.

From BCL Require Import Model.Api.
Example C04_example :
  match snd (interpret (bs "input") (bs "def t ""a"" {} def u {} def t ""b"" {} bind t:last -> struct def t ""c"" {} bind t:all -> slice") false false false) with
  | IRun _ rr => rr_res rr = VOk /\ length (rr_warn rr) = 1%nat
                 /\ match rr_binding rr with BSlice [VBlock _ a _; VBlock _ b _; VBlock _ c _] => (a, b, c) = (bs "a", bs "b", bs "c") | _ => False end
  | _ => False
  end.
Proof. vm_compute. repeat split; reflexivity. Qed.
