(* C01: Expression evaluation conforms to the language definition.

   Spec/Sem.v states the documented operator semantics organised by operand TYPES (promotion, int wrap
   around, truncated division, string concatenation / repetition / number coercion, equality across all
   types, ordering within numbers and within strings, falsey set); the theorems below say that the VM's
   instruction semantics (Model/Vm.v exec_op, the transcription of machine.go/oplogic.go) IS that
   semantics, for every operator and every pair of operands.  The precedence ladder and the
   equivalence of the one-pass compiler with grammar ; code generator (T2) and of code execution with
   the big-step semantics over names (T1) are stated in Spec/Syntax.v, Model/Compile.v, Spec/AstSem.v and
   are PROVED: C01_language below says that for every accepted source text the run of the compiled program gives
   the result, output, blocks, binding and warnings of the big-step semantics applied to the tree the grammar
   assigns to the text (or stops at one of the two implementation limits).  The limits are
   characterised on the tree (Proofs/Limits.v): `need_prog p` is the number of operand slots the program needs (live
   variables plus the temporaries of its deepest expression, computed structurally), `nest_prog p` its block nesting;
   within 1024 slots and 16 blocks the agreement is EXACT (C01_language_within_limits, no escape clause), and a limit
   error can only occur when the tree exceeds that limit (C01_language_characterised).
   The `_input` forms (Proofs/SizeBounds.v) have as ONLY hypotheses that the source is shorter than 2^56 bytes and that
   it is accepted: the number of constants is at most the number of tokens, the code at most 40 bytes per token, the
   lexer emits at most one token per byte plus two, and the parser never gives up (ParserTotal). *)
From Coq Require Import ZArith.
From RecordUpdate Require Import RecordSet.
Import RecordSetNotations.
From BCL Require Import Model.Vm Spec.Sem Proofs.VmSpecProofs.
Open Scope N_scope.
From BCL Require Import Model.Api Model.Compile Spec.Syntax Spec.AstSem Proofs.ParserInvProofs Proofs.T2Expr Proofs.T2Proofs Proofs.T1Expr Proofs.T1Proofs Proofs.Language.
From BCL Require Import Proofs.VerifyFrag Proofs.CompileVerifies Proofs.Limits.
From BCL Require Import Proofs.ParserTotal Proofs.SizeBounds.

(* every binary operator on every pair of operand values: the VM computes Sem.binop *)
Theorem C01_binop_spec : forall p instr o a b stk m,
  vm_inv m -> bop_of instr = Some o -> stack m = b :: a :: stk ->
  exec_op p instr m = binop_outcome p instr o a b stk m.
Proof. first [exact VmSpecProofs.C01_binop_spec_inv | apply VmSpecProofs.C01_binop_spec_inv]. Qed.
Print Assumptions C01_binop_spec.

(* the same without any side condition (the string + nil cell leaves tosMax alone) *)
Theorem C01_binop_spec_raw : forall p instr o a b stk m,
  bop_of instr = Some o -> stack m = b :: a :: stk ->
  exec_op p instr m = binop_outcome_raw p instr o a b stk m.
Proof. first [exact VmSpecProofs.C01_binop_spec_raw | apply VmSpecProofs.C01_binop_spec_raw]. Qed.
Print Assumptions C01_binop_spec_raw.

(* unary minus, unary plus, not *)
Theorem C01_unop_spec : forall p instr o a stk m,
  uop_of instr = Some o -> stack m = a :: stk ->
  exec_op p instr m =
  match Sem.unop o a with
  | RVal v => (m <| stack := v :: stk |>, VOk)
  | _ => (m, VErr (pos_at p (pc m)) (unop_msg o a))      (* only RTypeError occurs: unop_shape *)
  end.
Proof. first [exact VmSpecProofs.C01_unop_spec | apply VmSpecProofs.C01_unop_spec]. Qed.
Print Assumptions C01_unop_spec.

(* the falsey set used by not / and / or / JFALSE is the documented one *)
Theorem C01_falsey : forall v, is_falsey v = Sem.falsey v.
Proof. first [exact VmSpecProofs.C01_falsey | apply VmSpecProofs.C01_falsey]. Qed.
Print Assumptions C01_falsey.

(* short circuit: the conditional jump is taken iff the operand is falsey, and leaves the operand on the stack *)
Theorem C01_jfalse : forall p m j m1 a stk,
  read_u16 m = Some (j, m1) -> stack m = a :: stk ->
  exec_op p opJFALSE m = (if Sem.falsey a then jump_to p m1 (pc m1 + j) else m1, VOk)
  /\ stack (fst (exec_op p opJFALSE m)) = stack m /\ tos (fst (exec_op p opJFALSE m)) = tos m.
Proof. first [exact VmSpecProofs.C01_jfalse | apply VmSpecProofs.C01_jfalse]. Qed.
Print Assumptions C01_jfalse.

(* int arithmetic wraps at 64 bits *)
Local Open Scope Z_scope.
Theorem C01_int_wrap : forall z, - 2^63 <= wrap64 z < 2^63.
Proof. first [exact VmSpecProofs.C01_int_wrap | apply VmSpecProofs.C01_int_wrap]. Qed.
Local Close Scope Z_scope.
Print Assumptions C01_int_wrap.

(* int division truncates toward zero; MinInt64 / -1 wraps *)
Local Open Scope Z_scope.
Theorem C01_int_div : forall x y, - 2^63 <= x < 2^63 ->
  int_div x y = if (x =? - 2^63) && (y =? -1) then - 2^63 else x ÷ y.
Proof. first [exact VmSpecProofs.C01_int_div | apply VmSpecProofs.C01_int_div]. Qed.
Local Close Scope Z_scope.
Print Assumptions C01_int_div.

(* parser ; VM = grammar ; big-step semantics, for every source text *)
Theorem C01_language : forall name src,
  let pr := parse_whole name src in
  let ts := fst (lex [src]) in
  pr_ok pr = true -> pr_oof pr = false -> pr_panic pr = false ->
  ps_constants (pr_stats pr) < 2^64 ->
  exists p, ast_program ts = Some p /\
    let rr := execute (pr_prog pr) false false in
    limit_res (rr_res rr) \/
    (res_match (fst (run_program p)) (rr_res rr) /\ obs_match (snd (run_program p)) rr).
Proof. first [exact Language.bcl_language | apply Language.bcl_language]. Qed.
Print Assumptions C01_language.

(* and the accepted texts are exactly the sentences the generator accepts *)
Theorem C01_language_acceptance : forall name src,
  let pr := parse_whole name src in
  let ts := fst (lex [src]) in
  (pr_ok pr = true /\ pr_oof pr = false /\ pr_panic pr = false) <->
  (exists p, ast_program ts = Some p /\ hadError (compile_program p) = false).
Proof. first [exact Language.bcl_accepts_iff | apply Language.bcl_accepts_iff]. Qed.
Print Assumptions C01_language_acceptance.

Theorem C01_language_within_limits : forall name src,
  let pr := parse_whole name src in
  let ts := fst (lex [src]) in
  pr_ok pr = true -> pr_oof pr = false -> pr_panic pr = false ->
  ps_constants (pr_stats pr) < 2^64 ->
  exists p, ast_program ts = Some p /\
    (within_limits p ->
     let rr := execute (pr_prog pr) false false in
     res_match (fst (run_program p)) (rr_res rr) /\ obs_match (snd (run_program p)) rr).
Proof. first [exact Limits.bcl_language_within_limits | apply Limits.bcl_language_within_limits]. Qed.
Print Assumptions C01_language_within_limits.

Theorem C01_language_characterised : forall name src,
  let pr := parse_whole name src in
  let ts := fst (lex [src]) in
  pr_ok pr = true -> pr_oof pr = false -> pr_panic pr = false ->
  ps_constants (pr_stats pr) < 2^64 ->
  exists p, ast_program ts = Some p /\
    let rr := execute (pr_prog pr) false false in
    (overflow_res (rr_res rr) /\ 1024 < need_prog p) \/
    (nesting_res (rr_res rr) /\ 16 < nest_prog p) \/
    (res_match (fst (run_program p)) (rr_res rr) /\ obs_match (snd (run_program p)) rr).
Proof. first [exact Limits.bcl_language_characterised | apply Limits.bcl_language_characterised]. Qed.
Print Assumptions C01_language_characterised.

Theorem C01_tree_exact_within_limits : forall (p : list stmt) (name : bytes) (pos lfs : list N),
  let cs := compile_program p in
  hadError cs = false ->
  Forall binds_ok p ->
  nconsts cs < 2^64 ->
  need_prog p <= 1024 ->
  nest_prog p <= 16 ->
  let g := {| g_name := name; g_code := rev (code cs); g_consts := rev (consts cs); g_pos := pos; g_lfs := lfs |} in
  let rr := execute g false false in
  res_match (fst (run_program p)) (rr_res rr) /\ obs_match (snd (run_program p)) rr.
Proof. first [exact Limits.T1_exact_within_limits | apply Limits.T1_exact_within_limits]. Qed.
Print Assumptions C01_tree_exact_within_limits.

Theorem C01_language_input : forall name src,
  let pr := parse_whole name src in
  let ts := fst (lex [src]) in
  nlen src < 2^56 -> pr_ok pr = true ->
  exists p, ast_program ts = Some p /\
    let rr := execute (pr_prog pr) false false in
    limit_res (rr_res rr) \/
    (res_match (fst (run_program p)) (rr_res rr) /\ obs_match (snd (run_program p)) rr).
Proof. first [exact SizeBounds.bcl_language_input | apply SizeBounds.bcl_language_input]. Qed.
Print Assumptions C01_language_input.

Theorem C01_language_within_limits_input : forall name src,
  let pr := parse_whole name src in
  let ts := fst (lex [src]) in
  nlen src < 2^56 -> pr_ok pr = true ->
  exists p, ast_program ts = Some p /\
    (within_limits p ->
     let rr := execute (pr_prog pr) false false in
     res_match (fst (run_program p)) (rr_res rr) /\ obs_match (snd (run_program p)) rr).
Proof. first [exact SizeBounds.bcl_language_within_limits_input | apply SizeBounds.bcl_language_within_limits_input]. Qed.
Print Assumptions C01_language_within_limits_input.

(* non-vacuity: a program mixing all operator levels and all value kinds *)
From BCL Require Import Model.Api.
Example C01_example :
  match snd (interpret (bs "input") (bs "var s = ""ab"" print 1 + 2 * 3 - 4 / 2 print s + 1.5 + nil print s * 2 == ""abab"" and not 0.0 or 7 print -(1 < 2.0)") false false false) with
  | IRun o rr => rr_res rr = VErr 112 (bs "NEG: invalid type: bool, expected number") /\ length o = 3%nat
  | _ => False
  end.
Proof. vm_compute. split; reflexivity. Qed.
