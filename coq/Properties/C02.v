(* C02: Lexical scoping and state flow of variables versus fields.

   The scoping rules are those of Spec/AstSem.v, which works on NAMES: a stack of scopes (toplevel + one per open
   block) searched innermost first for a variable declared EARLIER (`lookup_frames`; `SVar` evaluates the initialiser
   in the environment without the new name), else inside a block a field read from the current or the nearest
   enclosing block that has it (`field_find`) and written to the current block; a redeclaration in the same scope
   and an unknown name at toplevel are static errors (`XStatic`), an unknown name in a block is the runtime error
   `XUnresolved`; an assignment updates exactly the resolved variable (`assign_frames`) or field once and yields
   the value.  The implementation has no names at run time: the compiler resolves identifiers to stack slots
   (parse.go resolveLocal / declVar / endScope), the VM reads and writes slots and field maps.  C02_language
   says the two agree on every accepted source text: result, output, blocks, binding and warnings of the run are
   those the semantics gives to the tree of the text.  C02_static_errors: a text whose tree the code generator
   rejects (redeclaration, own initialiser, unknown name at toplevel, too many locals) is rejected by Parse, and
   conversely.  The simulation relation behind it (Proofs/T1Proofs.v `SR`) states the slot discipline: the compile
   time table of locals is the concatenation of the scopes of the environment, innermost first, and the VM stack
   at every statement boundary holds exactly the values of those variables in that order. *)
From BCL Require Import Model.Api Model.Compile Spec.Syntax Spec.AstSem Proofs.ParserInvProofs Proofs.T2Expr Proofs.T2Proofs Proofs.T1Expr Proofs.T1Proofs Proofs.Language.
Open Scope N_scope.

From BCL Require Import Proofs.VerifyFrag Proofs.CompileVerifies Proofs.Limits.
From BCL Require Import Proofs.ParserTotal Proofs.SizeBounds.

(* parser ; VM = grammar ; big-step semantics over names, for every source text *)
Theorem C02_language : forall name src,
  let pr := parse_whole name src in
  let ts := fst (lex [src]) in
  pr_ok pr = true -> pr_oof pr = false -> pr_panic pr = false ->
  ps_constants (pr_stats pr) < 2^64 ->
  exists p, ast_program ts = Some p /\
    let rr := execute (pr_prog pr) false false in
    limit_res (rr_res rr) \/
    (res_match (fst (run_program p)) (rr_res rr) /\ obs_match (snd (run_program p)) rr).
Proof. first [exact Language.bcl_language | apply Language.bcl_language]. Qed.
Print Assumptions C02_language.

(* accepted iff a sentence whose tree has no static scoping error *)
Theorem C02_static_errors : forall name src,
  let pr := parse_whole name src in
  let ts := fst (lex [src]) in
  (pr_ok pr = true /\ pr_oof pr = false /\ pr_panic pr = false) <->
  (exists p, ast_program ts = Some p /\ hadError (compile_program p) = false).
Proof. first [exact Language.bcl_accepts_iff | apply Language.bcl_accepts_iff]. Qed.
Print Assumptions C02_static_errors.

(* for every tree: ok / runtime error (with its text) / observables coincide *)
Theorem C02_tree_semantics : forall (p : list stmt) (name : bytes) (pos lfs : list N),
  let cs := compile_program p in
  hadError cs = false -> Forall binds_ok p -> nconsts cs < 2^64 ->
  let g := {| g_name := name; g_code := rev (code cs); g_consts := rev (consts cs); g_pos := pos; g_lfs := lfs |} in
  let rr := execute g false false in
  let sr := fst (run_program p) in
  let en := snd (run_program p) in
  ~ limit_res (rr_res rr) ->
  ((exists u, sr = ROk u) <-> rr_res rr = VOk) /\
  (sr = RErr XExcluded <-> rr_res rr = VPanic PExcluded) /\
  sr <> RErr XStatic /\
  (forall e, sr = RErr e -> e <> XExcluded -> exists q, rr_res rr = VErr q (msg_of e)) /\
  (forall q msg, rr_res rr = VErr q msg -> exists e, sr = RErr e /\ msg = msg_of e) /\
  print_lines (rr_out rr) = rev (output en) /\ rr_blocks rr = rev (results en) /\
  binding_match (binding_ en) (rr_binding rr) /\ nlen (rr_warn rr) = warnings en.
Proof. first [exact T1Proofs.T1_program_iff | apply T1Proofs.T1_program_iff]. Qed.
Print Assumptions C02_tree_semantics.

(* every statement preserves the slot discipline SR (compile-time table = scopes of the environment, VM stack = values of the live variables) *)
Theorem C02_statement_simulation :
  forall g : prog, nlen (g_consts g) < 2 ^ 64 -> forall st : stmt, StmtP g st.
Proof. first [exact T1Proofs.stmt_sim | apply T1Proofs.stmt_sim]. Qed.
Print Assumptions C02_statement_simulation.

(* every expression, including embedded assignments, in evaluation order *)
Theorem C02_expression_simulation :
  forall g : prog, nlen (g_consts g) < 2 ^ 64 -> forall e : expr, SimP g e.
Proof. first [exact T1Expr.expr_sim | apply T1Expr.expr_sim]. Qed.
Print Assumptions C02_expression_simulation.

(* exact agreement (no limit escape) for programs within 1024 slots and 16 nested blocks *)
Theorem C02_language_within_limits : forall name src,
  let pr := parse_whole name src in
  let ts := fst (lex [src]) in
  pr_ok pr = true -> pr_oof pr = false -> pr_panic pr = false ->
  ps_constants (pr_stats pr) < 2^64 ->
  exists p, ast_program ts = Some p /\
    (within_limits p ->
     let rr := execute (pr_prog pr) false false in
     res_match (fst (run_program p)) (rr_res rr) /\ obs_match (snd (run_program p)) rr).
Proof. first [exact Limits.bcl_language_within_limits | apply Limits.bcl_language_within_limits]. Qed.
Print Assumptions C02_language_within_limits.

Theorem C02_tree_semantics_within_limits : forall (p : list stmt) (name : bytes) (pos lfs : list N),
  let cs := compile_program p in
  hadError cs = false -> Forall binds_ok p -> nconsts cs < 2^64 ->
  within_limits p ->
  let g := {| g_name := name; g_code := rev (code cs); g_consts := rev (consts cs); g_pos := pos; g_lfs := lfs |} in
  let rr := execute g false false in
  let sr := fst (run_program p) in
  let en := snd (run_program p) in
  ~ limit_res (rr_res rr) /\
  ((exists u, sr = ROk u) <-> rr_res rr = VOk) /\
  (sr = RErr XExcluded <-> rr_res rr = VPanic PExcluded) /\
  sr <> RErr XStatic /\
  (forall e, sr = RErr e -> e <> XExcluded -> exists q, rr_res rr = VErr q (msg_of e)) /\
  (forall q msg, rr_res rr = VErr q msg -> exists e, sr = RErr e /\ msg = msg_of e) /\
  print_lines (rr_out rr) = rev (output en) /\ rr_blocks rr = rev (results en) /\
  binding_match (binding_ en) (rr_binding rr) /\ nlen (rr_warn rr) = warnings en.
Proof. first [exact Limits.T1_program_iff_within_limits | apply Limits.T1_program_iff_within_limits]. Qed.
Print Assumptions C02_tree_semantics_within_limits.

(* only hypotheses: input shorter than 2^56 bytes, accepted, within the two VM limits *)
Theorem C02_language_within_limits_input : forall name src,
  let pr := parse_whole name src in
  let ts := fst (lex [src]) in
  nlen src < 2^56 -> pr_ok pr = true ->
  exists p, ast_program ts = Some p /\
    (within_limits p ->
     let rr := execute (pr_prog pr) false false in
     res_match (fst (run_program p)) (rr_res rr) /\ obs_match (snd (run_program p)) rr).
Proof. first [exact SizeBounds.bcl_language_within_limits_input | apply SizeBounds.bcl_language_within_limits_input]. Qed.
Print Assumptions C02_language_within_limits_input.

(* non-vacuity: shadowing, own-initialiser, fields versus variables, embedded assignment *)
Example C02_example :
  match snd (interpret (bs "input") (bs "var x = 1 def b { var x = x + 1; y = x; def c { var x = 10; z = y + x; y = (x = 3) + x } print y } print x") false false false) with
  | IRun o rr => rr_res rr = VOk /\ print_lines (rr_out rr) = [bs "2" ++ [10]; bs "1" ++ [10]]
  | _ => False
  end.
Proof. vm_compute. split; reflexivity. Qed.
