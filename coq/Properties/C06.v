(* C06: Every input ends in a result or an error, never a crash or a hang.

   In the model every Go panic site is an explicit constructor and every loop runs on fuel, so "never
   panics, never hangs" is the unreachability of `Panic _`, `VPanic _` (other than the excluded repetition
   case) and of fuel exhaustion.  Proved: the lexer always terminates within its fuel on every byte
   sequence and every chunking (C06_lexer_total); code accepted by the bytecode verifier runs to RET, to a
   documented runtime error or to the excluded case, within the fuel the API supplies (C06_vm_total);
   LoadProg of any truncated dump is an error, never a panic (C13); Bind never panics (C15).  The parser's fuel
   is never exhausted on an accepted input (C06_parser_fuel = T2_accept_no_oof) and a compiled program never
   ends in an internal error or at a panic site (C06_compiled_runs_clean, from T1 and T2).  The parser terminates within its fuel and reaches no panic
   site on EVERY input, accepted or rejected (C06_parser_total, C06_parse_total: measure = remaining tokens; the
   two panic sites of parse.go -- an infix token without handler, an empty locals table in defVar -- are
   unreachable).  Every compiled program passes the verifier (C06_parsed_verifies); also checked on the real
   compiler's output (it is checked on every
   program the real compiler produces).  Partial: Go stack exhaustion and allocator failure are outside
   the model; the property excludes them. *)
From BCL Require Import Model.Api Model.Verify Proofs.LineCalcProofs Proofs.LexerProofs Proofs.ParserInvProofs Proofs.OptionsProofs Proofs.VerifyProofs.
Open Scope N_scope.
From BCL Require Import Model.Compile Spec.Syntax Spec.AstSem Proofs.T2Expr Proofs.T2Proofs Proofs.T1Expr Proofs.T1Proofs Proofs.Language.
From BCL Require Import Proofs.CompileVerifies.
From BCL Require Import Proofs.ParserTotal.
From BCL Require Import Proofs.VerifyFrag Proofs.CompileVerifies Proofs.Limits.
From BCL Require Import Proofs.ParserTotal Proofs.SizeBounds.

Theorem C06_lexer_total : forall cs, exists tk,
  last_opt (fst (lex cs)) = Some tk /\ (ttyp tk = tEOF \/ ttyp tk = tFAIL).
Proof. first [exact ParserInvProofs.lex_fuel_enough | apply ParserInvProofs.lex_fuel_enough]. Qed.
Print Assumptions C06_lexer_total.

Theorem C06_lexer_shape : forall cs, lex_shape (fst (lex cs)).
Proof. first [exact ParserInvProofs.lex_tokens_shape | apply ParserInvProofs.lex_tokens_shape]. Qed.
Print Assumptions C06_lexer_shape.

Theorem C06_vm_total : forall p tr, verify p = true ->
  let (m, r) := run_fuel (run_bound p) p tr (init_vm p) in
  match r with
  | VOk => tos m = 0 /\ btos m = 0 /\ stack m = [] /\ bstack m = [] /\ rest m = []
  | VErr _ _ => True
  | VPanic PExcluded => True
  | _ => False
  end.
Proof. first [exact VerifyProofs.C10_execute | apply VerifyProofs.C10_execute]. Qed.
Print Assumptions C06_vm_total.

Theorem C06_vm_no_panic : forall p fuel tr, verify p = true ->
  let (m, r) := run_fuel fuel p tr (init_vm p) in
  match r with
  | VOk => tos m = 0 /\ btos m = 0 /\ stack m = [] /\ bstack m = [] /\ rest m = []
  | VErr _ _ => True
  | VPanic POutOfFuel => True
  | VPanic PExcluded => True
  | VPanic _ => False
  | VInternal _ => False
  end.
Proof. first [exact VerifyProofs.C10_check_sound | apply VerifyProofs.C10_check_sound]. Qed.
Print Assumptions C06_vm_no_panic.

(* malformed input is an error with a diagnostic, not a silent acceptance *)
Theorem C06_error_reported : forall ts,
  hadError (parse_tokens ts) = true <-> log (parse_tokens ts) <> [].
Proof. first [exact ParserInvProofs.C17_error_iff_log | apply ParserInvProofs.C17_error_iff_log]. Qed.
Print Assumptions C06_error_reported.

Theorem C06_parser_fuel : forall ts, eshape ts -> hadError (parse_tokens ts) = false ->
  oof (parse_tokens ts) = false /\ ppanic (parse_tokens ts) = false.
Proof. first [exact T2Proofs.T2_accept_no_oof | apply T2Proofs.T2_accept_no_oof]. Qed.
Print Assumptions C06_parser_fuel.

Theorem C06_compiled_runs_clean : forall name src,
  let pr := parse_whole name src in
  pr_ok pr = true -> pr_oof pr = false -> pr_panic pr = false ->
  ps_constants (pr_stats pr) < 2^64 ->
  match rr_res (execute (pr_prog pr) false false) with
  | VOk | VErr _ _ | VPanic PExcluded => True
  | VPanic _ | VInternal _ => False
  end.
Proof. first [exact Language.compiled_runs_clean | apply Language.compiled_runs_clean]. Qed.
Print Assumptions C06_compiled_runs_clean.

(* hence (C06_vm_total) runs to RET or a documented runtime error within the fuel, on every path *)
Theorem C06_parsed_verifies : forall name src,
  let pr := parse_whole name src in
  pr_ok pr = true -> pr_oof pr = false -> pr_panic pr = false -> ps_constants (pr_stats pr) < 2^64 ->
  verify (pr_prog pr) = true.
Proof. first [exact CompileVerifies.parsed_verifies | apply CompileVerifies.parsed_verifies]. Qed.
Print Assumptions C06_parsed_verifies.

(* every token list the lexer can produce: the parser neither runs out of fuel nor reaches a panic site *)
Theorem C06_parser_total : forall ts, lex_shape ts ->
  oof (parse_tokens ts) = false /\ ppanic (parse_tokens ts) = false.
Proof. first [exact ParserTotal.parser_total | apply ParserTotal.parser_total]. Qed.
Print Assumptions C06_parser_total.

(* the same for Parse / ParseFile on every chunked source *)
Theorem C06_parse_total : forall name cs,
  pr_oof (parse_chunks name cs) = false /\ pr_panic (parse_chunks name cs) = false.
Proof. first [exact ParserTotal.parse_total | apply ParserTotal.parse_total]. Qed.
Print Assumptions C06_parse_total.

Theorem C06_interpret_total : forall name src d t s,
  snd (interpret name src d t s) <> IModelFail (bs "parser out of fuel") /\
  snd (interpret name src d t s) <> IModelFail (bs "parser panic site").
Proof. first [exact ParserTotal.interpret_parser_total | apply ParserTotal.interpret_parser_total]. Qed.
Print Assumptions C06_interpret_total.

(* 'stack overflow' / 'too many nested blocks' are reported only for programs whose tree needs more than 1024 slots / 16 nested blocks *)
Theorem C06_limits_are_the_tree_limits : forall (p : list stmt) name pos lfs fuel tr,
  let cs := compile_program p in
  hadError cs = false -> nconsts cs < 2^64 ->
  let g := {| g_name := name; g_code := rev (code cs); g_consts := rev (consts cs); g_pos := pos; g_lfs := lfs |} in
  let r := snd (run_fuel fuel g tr (init_vm g)) in
  (overflow_res r -> stackSize < need_prog p) /\ (nesting_res r -> blockStackSize < nest_prog p).
Proof. first [exact Limits.compiled_limit_error | apply Limits.compiled_limit_error]. Qed.
Print Assumptions C06_limits_are_the_tree_limits.

(* the maximal depths over all paths of the compiled code are exactly the tree's needs *)
Theorem C06_peak_of_compiled_code : forall name src,
  let pr := parse_whole name src in
  pr_ok pr = true -> pr_oof pr = false -> pr_panic pr = false -> ps_constants (pr_stats pr) < 2^64 ->
  exists p, ast_program (fst (lex [src])) = Some p /\ peak (pr_prog pr) = Some (need_prog p, nest_prog p).
Proof. first [exact Limits.parsed_peak | apply Limits.parsed_peak]. Qed.
Print Assumptions C06_peak_of_compiled_code.

Theorem C06_compiled_runs_clean_input : forall name src,
  let pr := parse_whole name src in
  nlen src < 2^56 -> pr_ok pr = true ->
  match rr_res (execute (pr_prog pr) false false) with
  | VOk | VErr _ _ | VPanic PExcluded => True
  | VPanic _ | VInternal _ => False
  end.
Proof. first [exact SizeBounds.compiled_runs_clean_input | apply SizeBounds.compiled_runs_clean_input]. Qed.
Print Assumptions C06_compiled_runs_clean_input.

Theorem C06_constants_bounded_by_input : forall name cs,
  ps_constants (pr_stats (parse_chunks name cs)) <= nlen (concat cs) + 2.
Proof. first [exact SizeBounds.constants_bounded_by_input | apply SizeBounds.constants_bounded_by_input]. Qed.
Print Assumptions C06_constants_bounded_by_input.

Theorem C06_code_bounded_by_input : forall name cs,
  ps_code (pr_stats (parse_chunks name cs)) <= 40 * nlen (concat cs) + 91.
Proof. first [exact SizeBounds.code_bounded_by_input | apply SizeBounds.code_bounded_by_input]. Qed.
Print Assumptions C06_code_bounded_by_input.

Theorem C06_token_count : forall cs, N.of_nat (length (fst (lex cs))) <= nlen (concat cs) + 2.
Proof. first [exact SizeBounds.lex_token_count | apply SizeBounds.lex_token_count]. Qed.
Print Assumptions C06_token_count.

(* the literals and limits that used to panic are errors in the model (and, by the differential run, in the code) *)
Example C06_example :
  map (fun src => pr_ok (parse_whole (bs "f") src)) [bs "print 08"; bs "print 0x"; bs "print 1e999"; bs "print " ++ [34; 92; 113; 34]; bs "print 9223372036854775808"]
  = [false; false; false; false; false]
  /\ match snd (interpret (bs "f") (bs "print ""ab"" * -1") false false false) with IRun _ rr => rr_res rr = VErr 15 (bs "MUL: negative repeat count") | _ => False end.
Proof. vm_compute. split; reflexivity. Qed.
