(* C11: ParseFile terminates, closes its input exactly once, leaks nothing.

   Model: Model/Proto.v -- the four processes of ParseFile (reader, lexer, parser, caller), their
   channels (unbuffered inpc/rerr/perr, the 10-slot token channel, done), the deferred Close and
   the early-exit path, as a transition system.  `reachable s` = s is reached from an initial state
   for SOME read script (any sizes, zero-byte reads, EOF with or without data, an error at any step),
   SOME lexer/parser oracle (tokens per chunk, lexical failure anywhere, syntax errors, diagnostics)
   by SOME schedule.  Every theorem holds for all of them.  Timing and the Go scheduler itself are
   outside the model (partial, see DESIGN.md 6 C11). *)
From Coq Require Import Lia.
From BCL Require Import Model.Proto Proofs.ProtoProofs.

Theorem C11_no_deadlock : forall s, reachable s -> final s = false -> exists ch, do s ch <> None.
Proof. exact ProtoProofs.C11_no_deadlock. Qed.
Print Assumptions C11_no_deadlock.

(* every step decreases a measure: no schedule performs more than mu_ (init ...) effective steps *)
Theorem C11_terminates : forall sc plan fin syn nd sched,
  effective (init sc plan fin syn nd) sched <= mu_ (init sc plan fin syn nd).
Proof. exact ProtoProofs.C11_terminates. Qed.
Print Assumptions C11_terminates.

(* ... and every schedule that keeps offering every choice reaches the final state within that many rounds *)
Theorem C11_fair_terminates : forall n sched s,
  reachable s -> rounds n sched -> mu_ s <= n -> final (exec s sched) = true.
Proof. exact ProtoProofs.C11_fair_terminates. Qed.
Print Assumptions C11_fair_terminates.

Theorem C11_close_once : forall s, reachable s -> closes s <= 1.
Proof. exact ProtoProofs.C11_close_once. Qed.
Print Assumptions C11_close_once.

Theorem C11_close_exactly_once : forall s, reachable s -> final s = true -> closes s = 1.
Proof. exact ProtoProofs.C11_close_final. Qed.
Print Assumptions C11_close_exactly_once.

Theorem C11_no_read_after_close : forall s, reachable s -> closes s = 1 -> r s = R_done.
Proof. exact ProtoProofs.C11_read_never_after_close. Qed.
Print Assumptions C11_no_read_after_close.

(* the returned error: the read error if the reader met one, else the parse error -- the same for every schedule *)
Theorem C11_result : forall sc plan fin syn nd sched,
  let s := exec (init sc plan fin syn nd) sched in
  final s = true ->
  result s = Some (expected sc plan syn) /\ reads s = expected_reads sc plan /\ closes s = 1.
Proof. exact ProtoProofs.C11_result. Qed.
Print Assumptions C11_result.

Theorem C11_stops_reading : forall s, reachable s -> reads_after_fail s <= 1.
Proof. exact ProtoProofs.C11_stops_reading. Qed.
Print Assumptions C11_stops_reading.

(* when the caller has returned, lexer and parser are finished and the reader has only its
   non-blocking closing steps left *)
Theorem C11_no_leftover : forall s, reachable s -> returned s = true ->
  (r s = R_closeinpc \/ r s = R_closefile \/ r s = R_done) /\ l s = L_done /\ p s = P_done.
Proof. exact ProtoProofs.C11_no_leftover. Qed.
Print Assumptions C11_no_leftover.

(* non-vacuity: a zero-byte first read, then data; and an early lexical failure with input left over *)
Example C11_example :
  Proto.predict [RdZero; RdData; RdData] [(0, false); (3, false); (12, false)] 1 false 0 = (Some ENone, 1, 4, 0, true)
  /\ Proto.predict [RdData; RdData; RdData; RdErr] [(2, true)] 0 false 1 = (Some EParse, 1, 2, 0, true).
Proof. vm_compute. split; reflexivity. Qed.
