(* C11: placeholder until the protocol invariants are proved; a concrete exploration. *)
From BCL Require Import Model.Proto.
Example C11_example :
  Proto.predict [RdZero; RdData; RdData] [(0, false); (3, false); (12, false)] 1 false 0
  = (Some ENone, 1, 4, 0, true).
Proof. vm_compute. reflexivity. Qed.
Print Assumptions C11_example.
