(* C03: Result blocks mirror the definitions in the source.

   The three block instructions implement a stack of open blocks with field maps: SETFIELD creates or
   overwrites exactly one key of the innermost block; ENDBLOCK stores the finished child under type /
   type.name in its parent (the duplicate error iff the key exists) or appends it to the result list at
   toplevel; GETFIELD reads TYPE / NAME of the innermost block, else the nearest enclosing block that
   has the field.  Variables never enter a field map (they live on the operand stack: GETLOCAL/SETLOCAL
   do not touch bstack -- see exec_op).  That the compiler emits exactly these instructions for `def`
   and field assignments, and that the blocks returned are those the definitions of the source denote, is
   C03_language (T1 and T2 composed): rr_blocks = the `results` of the big-step semantics of the tree. *)
From RecordUpdate Require Import RecordSet.
Import RecordSetNotations.
From BCL Require Import Model.Vm Proofs.VmSpecProofs.
Open Scope N_scope.
From BCL Require Import Model.Api Model.Compile Spec.Syntax Spec.AstSem Proofs.ParserInvProofs Proofs.T2Expr Proofs.T2Proofs Proofs.T1Expr Proofs.T1Proofs Proofs.Language.
From BCL Require Import Proofs.VerifyFrag Proofs.CompileVerifies Proofs.Limits.
From BCL Require Import Proofs.ParserTotal Proofs.SizeBounds.

Theorem C03_setfield : forall p m i m1 name t n fs up a stk,
  read_uvarint m = Some (i, m1) -> get_const p i = Some (VStr name) ->
  bstack m = VBlock t n fs :: up -> stack m = a :: stk ->
  exec_op p opSETFIELD m = (m1 <| bstack := VBlock t n (fields_set name a fs) :: up |>, VOk).
Proof. first [exact VmSpecProofs.C03_setfield | apply VmSpecProofs.C03_setfield]. Qed.
Print Assumptions C03_setfield.

(* field maps: the written key holds the new value, every other key is untouched, keys stay unique *)
Theorem C03_setfield_fields : forall name a fs,
  fields_get name (fields_set name a fs) = Some a
  /\ (forall k, k <> name -> fields_get k (fields_set name a fs) = fields_get k fs)
  /\ (NoDup (keys fs) -> NoDup (keys (fields_set name a fs))).
Proof. first [exact VmSpecProofs.C03_setfield_fields | apply VmSpecProofs.C03_setfield_fields]. Qed.
Print Assumptions C03_setfield_fields.

Theorem C03_endblock_nested : forall p m t n fs pt pn pfs up,
  bstack m = VBlock t n fs :: VBlock pt pn pfs :: up ->
  exec_op p opENDBLOCK m =
  match fields_get (block_key t n) pfs with
  | Some _ => (m <| btos := btos m - 1 |>,
               VErr (pos_at p (pc m)) (bs "child " ++ block_key t n ++ bs " duplicate at parent"))
  | None => (m <| bstack := VBlock pt pn (fields_set (block_key t n) (VBlock t n fs) pfs) :: up |>
               <| btos := btos m - 1 |>, VOk)
  end.
Proof. first [exact VmSpecProofs.C03_endblock_nested | apply VmSpecProofs.C03_endblock_nested]. Qed.
Print Assumptions C03_endblock_nested.

Theorem C03_endblock_duplicate_iff : forall p m t n fs pt pn pfs up,
  bstack m = VBlock t n fs :: VBlock pt pn pfs :: up ->
  (snd (exec_op p opENDBLOCK m) <> VOk <-> In (block_key t n) (keys pfs))
  /\ (snd (exec_op p opENDBLOCK m) <> VOk ->
      snd (exec_op p opENDBLOCK m) =
      VErr (pos_at p (pc m)) (bs "child " ++ block_key t n ++ bs " duplicate at parent")).
Proof. first [exact VmSpecProofs.C03_endblock_duplicate_iff | apply VmSpecProofs.C03_endblock_duplicate_iff]. Qed.
Print Assumptions C03_endblock_duplicate_iff.

Theorem C03_endblock_toplevel : forall p m t n fs,
  bstack m = [VBlock t n fs] ->
  exec_op p opENDBLOCK m = (m <| bstack := [] |> <| btos := 0 |> <| result := VBlock t n fs :: result m |>, VOk).
Proof. first [exact VmSpecProofs.C03_endblock_toplevel | apply VmSpecProofs.C03_endblock_toplevel]. Qed.
Print Assumptions C03_endblock_toplevel.

Theorem C03_getfield : forall p m i m1 name t n fs up,
  tos m <> stackSize ->
  read_uvarint m = Some (i, m1) -> get_const p i = Some (VStr name) ->
  bstack m = VBlock t n fs :: up ->
  exec_op p opGETFIELD m =
  match lookup_field name (bstack m) with
  | Some v => (push v m1, VOk)
  | None => (m1, VErr (pos_at p (pc m1)) (bs "identifier '" ++ name ++ bs "' not resolved as var or field"))
  end.
Proof. first [exact VmSpecProofs.C03_getfield | apply VmSpecProofs.C03_getfield]. Qed.
Print Assumptions C03_getfield.

(* the nearest enclosing block that has the field *)
Theorem C03_block_find_spec : forall k bstk v,
  block_find k bstk = Some v <->
  exists pre t n fs post,
    bstk = pre ++ VBlock t n fs :: post /\ fields_get k fs = Some v /\
    Forall (fun b => match b with VBlock _ _ fs' => fields_get k fs' = None | _ => True end) pre.
Proof. first [exact VmSpecProofs.C03_block_find_spec | apply VmSpecProofs.C03_block_find_spec]. Qed.
Print Assumptions C03_block_find_spec.

(* the blocks (and everything else observable) are those of the semantics of the source's tree *)
Theorem C03_language : forall name src,
  let pr := parse_whole name src in
  let ts := fst (lex [src]) in
  pr_ok pr = true -> pr_oof pr = false -> pr_panic pr = false ->
  ps_constants (pr_stats pr) < 2^64 ->
  exists p, ast_program ts = Some p /\
    let rr := execute (pr_prog pr) false false in
    limit_res (rr_res rr) \/
    (res_match (fst (run_program p)) (rr_res rr) /\ obs_match (snd (run_program p)) rr).
Proof. first [exact Language.bcl_language | apply Language.bcl_language]. Qed.
Print Assumptions C03_language.

Theorem C03_language_within_limits : forall name src,
  let pr := parse_whole name src in
  let ts := fst (lex [src]) in
  pr_ok pr = true -> pr_oof pr = false -> pr_panic pr = false ->
  ps_constants (pr_stats pr) < 2^64 ->
  exists p, ast_program ts = Some p /\
    (within_limits p ->
     let rr := execute (pr_prog pr) false false in
     res_match (fst (run_program p)) (rr_res rr) /\ obs_match (snd (run_program p)) rr).
Proof. first [exact Limits.bcl_language_within_limits | apply Limits.bcl_language_within_limits]. Qed.
Print Assumptions C03_language_within_limits.

Theorem C03_language_within_limits_input : forall name src,
  let pr := parse_whole name src in
  let ts := fst (lex [src]) in
  nlen src < 2^56 -> pr_ok pr = true ->
  exists p, ast_program ts = Some p /\
    (within_limits p ->
     let rr := execute (pr_prog pr) false false in
     res_match (fst (run_program p)) (rr_res rr) /\ obs_match (snd (run_program p)) rr).
Proof. first [exact SizeBounds.bcl_language_within_limits_input | apply SizeBounds.bcl_language_within_limits_input]. Qed.
Print Assumptions C03_language_within_limits_input.

From BCL Require Import Model.Api.
Example C03_example :
  match snd (interpret (bs "input") (bs "def a ""n"" { x = 1 var v = 2 def b { y = x + v } def b ""m"" { z = TYPE + NAME } x = 3 } def a { } print 1/0 def c { }") false false false) with
  | IRun _ rr => length (rr_blocks rr) = 2%nat /\ (match rr_res rr with VErr _ _ => True | _ => False end)
                 /\ match rr_blocks rr with
                    | VBlock _ _ fs :: _ => map fst fs = [bs "x"; bs "b"; bs "b.m"]
                    | _ => False end
  | _ => False
  end.
Proof. vm_compute. repeat split; reflexivity. Qed.
