(* C17: placeholder until the proofs are merged; a concrete run of the model. *)
From BCL Require Import Model.Api.
Example C17_example :
  pr_ok (parse_whole (bs "input") (bs "var x = 1 print x + 2 * 3")) = true.
Proof. vm_compute. reflexivity. Qed.
Print Assumptions C17_example.
