(* C17: The parser accepts exactly the grammar and reports what it rejects.

   Proved here: a parse ends in an error exactly when a diagnostic was logged (C17_error_iff_log, for every
   token list whatever its shape), the token stream always ends in tEOF or in tERR,tFAIL after which the
   lexer emits nothing (C17_lexer_shape), an accepted parse has consumed the input up to tEOF
   (C17_ok_reaches_eof: a lexical failure ends the parse with an error).  The grammar itself is
   Spec/Syntax.v (`ast_program`); "accepted iff derivable, and then the code is the code generator's" is
   theorem T2, which the check tests on every generated sentence and mutation (suite t2check) and whose Coq
   proof is in progress; C17_resync (a later faulty statement still gets its own diagnostic) is validated by
   the differential run only. *)
From BCL Require Import Model.Api Proofs.LineCalcProofs Proofs.LexerProofs Proofs.ParserInvProofs.
Open Scope N_scope.

Theorem C17_error_iff_log : forall ts,
  hadError (parse_tokens ts) = true <-> log (parse_tokens ts) <> [].
Proof. first [exact ParserInvProofs.C17_error_iff_log | apply ParserInvProofs.C17_error_iff_log]. Qed.
Print Assumptions C17_error_iff_log.

(* acceptance writes no diagnostic; every rejection writes at least one *)
Theorem C17_ok_iff_no_diags : forall name cs,
  pr_ok (parse_chunks name cs) = true <-> pr_diags (parse_chunks name cs) = [].
Proof. first [exact ParserInvProofs.C17_ok_iff_no_diags | apply ParserInvProofs.C17_ok_iff_no_diags]. Qed.
Print Assumptions C17_ok_iff_no_diags.

Theorem C17_lexer_shape : forall cs, lex_shape (fst (lex cs)).
Proof. first [exact ParserInvProofs.lex_tokens_shape | apply ParserInvProofs.lex_tokens_shape]. Qed.
Print Assumptions C17_lexer_shape.

(* the lexer never stops for lack of fuel: its last token is tEOF or tFAIL *)
Theorem C17_lexer_terminates : forall cs, exists tk,
  last_opt (fst (lex cs)) = Some tk /\ (ttyp tk = tEOF \/ ttyp tk = tFAIL).
Proof. first [exact ParserInvProofs.lex_fuel_enough | apply ParserInvProofs.lex_fuel_enough]. Qed.
Print Assumptions C17_lexer_terminates.

Theorem C17_ok_reaches_eof : forall ts, lex_shape ts ->
  hadError (parse_tokens ts) = false -> oof (parse_tokens ts) = false ->
  ppanic (parse_tokens ts) = false ->
  exists tk, last_opt ts = Some tk /\ ttyp tk = tEOF.
Proof. first [exact ParserInvProofs.parse_ok_reaches_eof | apply ParserInvProofs.parse_ok_reaches_eof]. Qed.
Print Assumptions C17_ok_reaches_eof.

(* every diagnostic is attached to a token of the input *)
Theorem C17_diag_at_token : forall ts d, In d (log (parse_tokens ts)) ->
  d_pos d = 0 \/ exists t, In t ts /\ d_pos d = tpos t.
Proof. first [exact ParserInvProofs.diag_pos_is_token_pos | apply ParserInvProofs.diag_pos_is_token_pos]. Qed.
Print Assumptions C17_diag_at_token.

Example C17_example :
  pr_ok (parse_whole (bs "f") (bs "var x = 1 def b { y = x; z = (y = 2) } print x; bind b -> struct")) = true
  /\ length (pr_diags (parse_whole (bs "f") (bs "print 1 +" ++ [10] ++ bs "print *" ++ [10]))) = 2%nat
  /\ pr_ok (parse_whole (bs "f") (bs "print (1 = 2)")) = false.
Proof. vm_compute. repeat split; reflexivity. Qed.
