(* C17: The parser accepts exactly the grammar and reports what it rejects.

   Proved here: a parse ends in an error exactly when a diagnostic was logged (C17_error_iff_log, for every
   token list whatever its shape), the token stream always ends in tEOF or in tERR,tFAIL after which the
   lexer emits nothing (C17_lexer_shape), an accepted parse has consumed the input up to tEOF
   (C17_ok_reaches_eof: a lexical failure ends the parse with an error).  The grammar itself is
   Spec/Syntax.v (`ast_program`); "accepted iff derivable, and then the code is the code generator's" is
   theorem T2, proved (C17_accepts_iff for token lists, C17_source for source texts, C17_code for the code of
   accepted texts; C17_fuel: the parser's recursion fuel is never the reason for a rejection); resynchronisation is proved in Proofs/DiagProofs.v: every reporting primitive appends exactly one diagnostic
   whatever the panic flag (C17_error_appends_one: parse.go does NOT silence errors in panic mode, so one faulty
   statement may produce several diagnostics -- C17_cascade_example -- which the property allows); `sync` stops at
   the first token that is a statement keyword or the end and changes nothing but the token cursor
   (C17_sync_spec); every toplevel statement starts with the panic flag cleared, at depth 0, on a non-end token
   (C17_statements_start_clean), and a statement that ends in panic has added at least one diagnostic of its own
   (C17_rejected_is_reported): a later faulty statement always gets its own diagnostic. *)
From BCL Require Import Proofs.LayoutProofs Proofs.LayoutTree Proofs.LexLayout Proofs.LexWrite Proofs.LexSound.
From BCL Require Import Model.Api Proofs.LineCalcProofs Proofs.LexerProofs Proofs.ParserInvProofs.
Open Scope N_scope.
From BCL Require Import Model.Compile Spec.Syntax Proofs.T2Expr Proofs.T2Proofs Proofs.Language.
From BCL Require Import Proofs.ParserTotal.
From BCL Require Import Model.Parser Proofs.DiagProofs.

Theorem C17_error_iff_log : forall ts,
  hadError (parse_tokens ts) = true <-> log (parse_tokens ts) <> [].
Proof. first [exact ParserInvProofs.C17_error_iff_log | apply ParserInvProofs.C17_error_iff_log]. Qed.
Print Assumptions C17_error_iff_log.

(* acceptance writes no diagnostic; every rejection writes at least one *)
Theorem C17_ok_iff_no_diags : forall name cs,
  pr_ok (parse_chunks name cs) = true <-> pr_diags (parse_chunks name cs) = [].
Proof. first [exact ParserInvProofs.C17_ok_iff_no_diags | apply ParserInvProofs.C17_ok_iff_no_diags]. Qed.
Print Assumptions C17_ok_iff_no_diags.

Theorem C17_lexer_shape : forall cs, lex_shape (fst (lex cs)).
Proof. first [exact ParserInvProofs.lex_tokens_shape | apply ParserInvProofs.lex_tokens_shape]. Qed.
Print Assumptions C17_lexer_shape.

(* the lexer never stops for lack of fuel: its last token is tEOF or tFAIL *)
Theorem C17_lexer_terminates : forall cs, exists tk,
  last_opt (fst (lex cs)) = Some tk /\ (ttyp tk = tEOF \/ ttyp tk = tFAIL).
Proof. first [exact ParserInvProofs.lex_fuel_enough | apply ParserInvProofs.lex_fuel_enough]. Qed.
Print Assumptions C17_lexer_terminates.

Theorem C17_ok_reaches_eof : forall ts, lex_shape ts ->
  hadError (parse_tokens ts) = false -> oof (parse_tokens ts) = false ->
  ppanic (parse_tokens ts) = false ->
  exists tk, last_opt ts = Some tk /\ ttyp tk = tEOF.
Proof. first [exact ParserInvProofs.parse_ok_reaches_eof | apply ParserInvProofs.parse_ok_reaches_eof]. Qed.
Print Assumptions C17_ok_reaches_eof.

(* every diagnostic is attached to a token of the input *)
Theorem C17_diag_at_token : forall ts d, In d (log (parse_tokens ts)) ->
  d_pos d = 0 \/ exists t, In t ts /\ d_pos d = tpos t.
Proof. first [exact ParserInvProofs.diag_pos_is_token_pos | apply ParserInvProofs.diag_pos_is_token_pos]. Qed.
Print Assumptions C17_diag_at_token.

(* accepted (no error, no fuel exhaustion, no panic site) iff derivable from the grammar and accepted by the generator *)
Theorem C17_accepts_iff : forall ts, lex_shape ts ->
  (hadError (parse_tokens ts) = false /\ oof (parse_tokens ts) = false /\
   ppanic (parse_tokens ts) = false) <->
  (exists p, ast_program ts = Some p /\ hadError (compile_program p) = false).
Proof. first [exact T2Proofs.T2_accepts_iff | apply T2Proofs.T2_accepts_iff]. Qed.
Print Assumptions C17_accepts_iff.

(* the same for Parse on a source text *)
Theorem C17_source : forall name src,
  let pr := parse_whole name src in
  let ts := fst (lex [src]) in
  (pr_ok pr = true /\ pr_oof pr = false /\ pr_panic pr = false) <->
  (exists p, ast_program ts = Some p /\ hadError (compile_program p) = false).
Proof. first [exact Language.bcl_accepts_iff | apply Language.bcl_accepts_iff]. Qed.
Print Assumptions C17_source.

(* and then code, constants and identifier table are the generator's *)
Theorem C17_code : forall ts, lex_shape ts ->
  hadError (parse_tokens ts) = false -> oof (parse_tokens ts) = false ->
  ppanic (parse_tokens ts) = false ->
  exists p, ast_program ts = Some p /\ hadError (compile_program p) = false /\
    code (parse_tokens ts) = code (compile_program p) /\
    consts (parse_tokens ts) = consts (compile_program p) /\
    nconsts (parse_tokens ts) = nconsts (compile_program p) /\
    ncode (parse_tokens ts) = ncode (compile_program p) /\
    identRefs (parse_tokens ts) = identRefs (compile_program p).
Proof. first [exact T2Proofs.T2_code_equal | apply T2Proofs.T2_code_equal]. Qed.
Print Assumptions C17_code.

(* on token lists ending in tEOF: not a sentence => error; sentence => same verdict and same emitter state as the generator *)
Theorem C17_rejects : forall ts, eshape ts ->
  match ast_program ts with
  | Some p =>
      (hadError (compile_program p) = true /\ hadError (parse_tokens ts) = true) \/
      (hadError (compile_program p) = false /\ hadError (parse_tokens ts) = false /\
       oof (parse_tokens ts) = false /\ ppanic (parse_tokens ts) = false /\
       ev (parse_tokens ts) = ev (compile_program p))
  | None => hadError (parse_tokens ts) = true
  end.
Proof. first [exact T2Proofs.T2_core | apply T2Proofs.T2_core]. Qed.
Print Assumptions C17_rejects.

(* an accepted parse never ran out of fuel and hit no panic site *)
Theorem C17_fuel : forall ts, eshape ts -> hadError (parse_tokens ts) = false ->
  oof (parse_tokens ts) = false /\ ppanic (parse_tokens ts) = false.
Proof. first [exact T2Proofs.T2_accept_no_oof | apply T2Proofs.T2_accept_no_oof]. Qed.
Print Assumptions C17_fuel.

(* rejection is never the model giving up: no fuel exhaustion, no panic site, on any input *)
Theorem C17_parser_total : forall ts, lex_shape ts ->
  oof (parse_tokens ts) = false /\ ppanic (parse_tokens ts) = false.
Proof. first [exact ParserTotal.parser_total | apply ParserTotal.parser_total]. Qed.
Print Assumptions C17_parser_total.

Theorem C17_error_appends_one : forall s,
  (forall t m, exists d, log (error_at t m s) = d :: log s /\ d_pos d = tpos t /\ d_msg d = m /\
     panicMode (error_at t m s) = true /\ hadError (error_at t m s) = true) /\
  (forall m, exists d, log (perror m s) = d :: log s /\ d_pos d = tpos (prev s) /\ d_msg d = m /\
     panicMode (perror m s) = true /\ hadError (perror m s) = true) /\
  (forall m, exists d, log (error_at_current m s) = d :: log s /\ d_pos d = tpos (cur_ s) /\ d_msg d = m /\
     panicMode (error_at_current m s) = true /\ hadError (error_at_current m s) = true) /\
  (forall m, exists d, log (perr m s) = d :: log s /\ d_pos d = tpos (prev s) /\ d_msg d = bs m /\
     panicMode (perr m s) = true /\ hadError (perr m s) = true) /\
  (forall m, exists d, log (perrc m s) = d :: log s /\ d_pos d = tpos (cur_ s) /\ d_msg d = bs m /\
     panicMode (perrc m s) = true /\ hadError (perrc m s) = true).
Proof. first [exact DiagProofs.error_appends_one | apply DiagProofs.error_appends_one]. Qed.
Print Assumptions C17_error_appends_one.

Theorem C17_sync_spec : forall f s, J s -> (len s + 1 <= f)%nat ->
  exists skipped t rest, sync_rel false s (sync f s) skipped t rest.
Proof. first [exact DiagProofs.sync_spec | apply DiagProofs.sync_spec]. Qed.
Print Assumptions C17_sync_spec.

Theorem C17_sync_spec_clean : forall f s, J s -> (len s + 1 <= f)%nat ->
  exists skipped t rest,
    cur_ s :: toks s = skipped ++ t :: rest /\
    Forall (fun x => sync_stop x = false) skipped /\ sync_stop t = true /\
    cur_ (sync f s) = t /\ toks (sync f s) = rest /\
    (Forall (fun x => isERR x = false) (tl skipped) ->
       panicMode (sync f s) = false /\ log (sync f s) = log s /\ hadError (sync f s) = hadError s /\
       prev (sync f s) = last skipped (prev s)) /\
    st_tokens (sync f s) = st_tokens s + N.of_nat (length skipped) /\
    EF s (sync f s).
Proof. first [exact DiagProofs.sync_spec_clean | apply DiagProofs.sync_spec_clean]. Qed.
Print Assumptions C17_sync_spec_clean.

Theorem C17_statements_start_clean : forall ts, lex_shape ts ->
  Forall start_clean (top_starts (parse_fuel ts) (advance (init_pst ts))).
Proof. first [exact DiagProofs.toplevel_statements_start_clean | apply DiagProofs.toplevel_statements_start_clean]. Qed.
Print Assumptions C17_statements_start_clean.

Theorem C17_rejected_is_reported : forall f s,
  panicMode s = false -> panicMode (decl_core f s) = true ->
  (length (log s) < length (log (decl_core f s)))%nat /\
  (length (log s) < length (log (decl (S f) s)))%nat /\ hadError (decl (S f) s) = true.
Proof. first [exact DiagProofs.statement_rejected_is_reported | apply DiagProofs.statement_rejected_is_reported]. Qed.
Print Assumptions C17_rejected_is_reported.

Theorem C17_log_only_grows : forall ts, step_ok (init_pst ts) (parse_tokens ts).
Proof. first [exact DiagProofs.parse_tokens_step_ok | apply DiagProofs.parse_tokens_step_ok]. Qed.
Print Assumptions C17_log_only_grows.

(* every token the lexer emits has the shape the lexical grammar gives its type (identifiers, decimal and hex integers, floats with fraction or exponent, quoted strings, keywords, punctuation) *)
Theorem C17_lexical_grammar_sound : forall cs t, In t (fst (lex cs)) ->
  ttyp t <> tEOF -> ttyp t <> tERR -> ttyp t <> tFAIL -> lexable' t.
Proof. first [exact LexSound.lex_tokens_lexable | apply LexSound.lex_tokens_lexable]. Qed.
Print Assumptions C17_lexical_grammar_sound.

(* and every such text is emitted as that token for some input *)
Theorem C17_lexical_grammar_exact : forall ty v,
  lexable' (ltok ty v 0) <->
  exists cs t, In t (fst (lex cs)) /\ ttyp t = ty /\ tval t = v /\ ty <> tEOF /\ ty <> tERR /\ ty <> tFAIL.
Proof. first [exact LexSound.lexable'_exact | apply LexSound.lexable'_exact]. Qed.
Print Assumptions C17_lexical_grammar_exact.

(* a sequence of lexable texts separated by white space is read back as exactly those tokens *)
Theorem C17_lexical_grammar_complete : forall sep ts, sep <> [] -> Forall ws_byte sep -> Forall lexable ts ->
  map strip (fst (lex [render_sep sep ts])) = map strip ts ++ [(tEOF, [])].
Proof. first [exact LexWrite.lex_render_any_sep | apply LexWrite.lex_render_any_sep]. Qed.
Print Assumptions C17_lexical_grammar_complete.

Example C17_example :
  pr_ok (parse_whole (bs "f") (bs "var x = 1 def b { y = x; z = (y = 2) } print x; bind b -> struct")) = true
  /\ length (pr_diags (parse_whole (bs "f") (bs "print 1 +" ++ [10] ++ bs "print *" ++ [10]))) = 2%nat
  /\ pr_ok (parse_whole (bs "f") (bs "print (1 = 2)")) = false.
Proof. vm_compute. repeat split; reflexivity. Qed.
