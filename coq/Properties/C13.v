(* C13: Truncated bytecode is rejected with an error.

   For every well-formed program and every cut point k < length of its dump, loading the first k
   bytes ends in Err: not Ok (no silently shortened program), not Panic (no crash), and -- the
   model being a total function -- not a hang.  Stated on the byte stream and, through
   C09_load_partition_independent, for every partition of the prefix into reads. *)
From Coq Require Import Lia.
From BCL Require Import Model.DumpLoad Proofs.EncodingProofs Proofs.BufioProofs Proofs.DumpLoadProofs.
Open Scope N_scope.

Theorem C13_truncated : forall p b k,
  wf_parts p -> dump p = Ok b -> (k < length b)%nat ->
  exists e, load_bytes (firstn k b) = Err e.
Proof. exact load_truncated. Qed.
Print Assumptions C13_truncated.

Theorem C13_truncated_any_reads : forall p b k cs,
  wf_parts p -> dump p = Ok b -> (k < length b)%nat ->
  Forall (fun c => c <> []) cs -> concat cs = firstn k b ->
  exists e, load_chunks cs = Err e.
Proof.
  intros p b k cs Hwf Hd Hk Hne Hc. rewrite (load_chunks_eq cs Hne), Hc.
  exact (load_truncated p b k Hwf Hd Hk).
Qed.
Print Assumptions C13_truncated_any_reads.

(* success never depends on bytes that were not there: what loads, loads the same with more input *)
Theorem C13_load_prefix_mono : forall a ext, (forall e, load_r aops a <> Err e) ->
  load_r aops (a ++ ext) = match load_r aops a with Ok (p, r) => Ok (p, r ++ ext) | o => o end.
Proof. exact load_ext. Qed.
Print Assumptions C13_load_prefix_mono.

(* all 2^16 - 1 wrong magic values, and all unsupported version pairs *)
Theorem C13_bad_magic : forall b,
  (forall m1 m2 rest, b = m1 :: m2 :: rest -> (m1, m2) <> (252, 108)) ->
  exists e, load_bytes b = Err e.
Proof. exact load_bad_header. Qed.
Print Assumptions C13_bad_magic.

Theorem C13_bad_version : forall vmaj vmin rest, vmaj <> 1 \/ 1 < vmin ->
  exists e, load_bytes (252 :: 108 :: vmaj :: vmin :: rest) = Err e.
Proof. exact load_bad_version. Qed.
Print Assumptions C13_bad_version.

(* non-vacuity: every proper prefix of a concrete dump is rejected (and the whole is accepted) *)
Definition sample : parts :=
  {| p_name := [110]; p_code := [9; 0; 2; 1];
     p_consts := [VStr [97; 98]; VInt (-5); VFloat 4609434218613702656; VBool true; VNil];
     p_pos := [3; 3; 300; 70000]; p_lfs := [5; 9] |}.
Example C13_sample :
  match dump sample with
  | Ok b => load_bytes b = Ok sample /\
            forallb (fun k => match load_bytes (firstn k b) with Err _ => true | _ => false end)
                    (seq 0 (length b)) = true
  | _ => False
  end.
Proof. vm_compute. split; reflexivity. Qed.
