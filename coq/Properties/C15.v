(* C15: Bind never panics and never silently drops or coerces data.

   Model/Reflect.v is the transcription of reflect.go (copyBlocks / copyBlock / setField) together with the
   parts of package reflect it relies on (FieldByNameFunc's breadth-first search with annihilation of ambiguous
   names, FieldByIndexErr's pointer indirections, AssignableTo on the value kinds BCL produces).  The harness
   runs it against the real Bind on generated target types (reflect.StructOf + compiled-in named types) and
   blocks.  The theorems:
     total     - Bind returns a value or an error for every target and binding (no panic branch of the model
                 is reachable; the depth bound 64 is the model's recursion fuel, the VM limits nesting to 16);
     errors    - each defect named in the property is an error, and the first faulty field in key order is
                 the one reported;
     faithful  - a nil return means every scalar of the block, recursively every nested block, and a non-empty
                 name were stored unchanged in exported, assignable, pairwise NON-OVERLAPPING fields.  This
                 theorem was false before the repair recorded in known_findings.txt ("fixed: C15 ... embedded"):
                 a promoted field and a nested block stored into the embedded struct overwrote each other;
     slice     - a slice target gets a fresh slice of exactly the bound blocks, or, on any error, nothing. *)
From Coq Require Import List Lia Permutation.
From BCL Require Import Model.Reflect Proofs.ReflectProofs.
Open Scope N_scope.

(* Bind never panics *)
Theorem C15_total : forall tg b, depth_ok b -> bind tg b <> BPanic.
Proof. first [exact ReflectProofs.C15_total | apply ReflectProofs.C15_total]. Qed.
Print Assumptions C15_total.

(* nil only if everything was stored unchanged, in distinct non-overlapping exported fields *)
Theorem C15_faithful : forall tn fs v0 bt bn kvs v',
  shaped (TStruct tn fs) v0 ->
  bind (TgtPtr (TStruct tn fs) v0) (BdStruct (VBlock bt bn kvs)) = BOk (GPtrTo v') ->
  (* 1. every scalar value is found, unchanged, in the exported field its key maps to *)
  (forall k x, In (k, x) kvs -> ~ is_block x ->
     exists path fld, find_field fs k = Some (path, fld) /\ fexp fld = true /\
                      lookup_path v' path = Some (GVal x) /\ assignable x (ftyp fld) = true) /\
  (* 2. the entries go to pairwise non-overlapping fields: no two keys share a field, and none
        addresses a struct containing another one's field *)
  NoDup (map (pathof fs) (map fst kvs)) /\
  (forall k1 k2, In k1 (map fst kvs) -> In k2 (map fst kvs) -> k1 <> k2 ->
                 path_overlap (pathof fs k1) (pathof fs k2) = false) /\
  (* 3. a non-empty block name is stored in the field found for "Name"; no key overlaps it *)
  (bn <> [] ->
     exists path fld, find_field fs (bs "Name") = Some (path, fld) /\ fexp fld = true /\
                      lookup_path v' path = Some (GVal (VStr bn)) /\
                      forall k, In k (map fst kvs) -> path_overlap (pathof fs k) path = false).
Proof. first [exact ReflectProofs.C15_faithful | apply ReflectProofs.C15_faithful]. Qed.
Print Assumptions C15_faithful.

(* the same through nested blocks at every level *)
Theorem C15_faithful_deep : forall tn fs v0 blk v',
  shaped (TStruct tn fs) v0 ->
  bind (TgtPtr (TStruct tn fs) v0) (BdStruct blk) = BOk (GPtrTo v') ->
  stored (TStruct tn fs) v' blk.
Proof. first [exact ReflectProofs.C15_faithful_deep | apply ReflectProofs.C15_faithful_deep]. Qed.
Print Assumptions C15_faithful_deep.

(* success excludes every defect *)
Theorem C15_errors_none : forall tn fs v0 bt bn kvs w,
  bind (TgtPtr (TStruct tn fs) v0) (BdStruct (VBlock bt bn kvs)) = BOk w ->
  (tn = [] \/ unsnake_eq tn bt = true) /\
  (bn <> [] -> exists p fld, find_field fs (bs "Name") = Some (p, fld) /\ fexp fld = true /\
                             assignable (VStr bn) (ftyp fld) = true /\
                             forall k, In k (map fst kvs) -> path_overlap (pathof fs k) p = false) /\
  (forall k x, In (k, x) kvs ->
     exists p fld, find_field fs k = Some (p, fld) /\ fexp fld = true /\ x <> VNil /\
       match x with
       | VBlock _ _ _ => exists n' fs', ftyp fld = TStruct n' fs'
       | _ => assignable x (ftyp fld) = true
       end) /\
  NoDup (map (pathof fs) (map fst kvs)) /\
  (forall k1 k2, In k1 (map fst kvs) -> In k2 (map fst kvs) -> k1 <> k2 ->
                 path_overlap (pathof fs k1) (pathof fs k2) = false).
Proof. first [exact ReflectProofs.C15_errors_none | apply ReflectProofs.C15_errors_none]. Qed.
Print Assumptions C15_errors_none.

(* the first faulty field in sorted key order is the error reported *)
Theorem C15_errors_first : forall tn fs v0 bt bn kvs pre k x post st1 st' e,
  (tn = [] \/ unsnake_eq tn bt = true) ->
  name_step R63 tn fs v0 bn = inr st1 ->
  sorted_fields kvs = pre ++ (k, x) :: post ->
  run_fields R63 tn fs pre st1 = inr st' ->
  set_field_ R63 tn fs k x false st' = inl (inl e) ->
  bind (TgtPtr (TStruct tn fs) v0) (BdStruct (VBlock bt bn kvs)) = BErr e.
Proof. first [exact ReflectProofs.C15_errors_first | apply ReflectProofs.C15_errors_first]. Qed.
Print Assumptions C15_errors_first.

(* a missing counterpart *)
Theorem C15_errors_mapping : forall rec tn fs k x opt st,
  find_field fs k = None -> set_field_ rec tn fs k x opt st = inl (inl EMapping).
Proof. first [exact ReflectProofs.C15_errors_mapping | apply ReflectProofs.C15_errors_mapping]. Qed.
Print Assumptions C15_errors_mapping.

(* an unexported counterpart *)
Theorem C15_errors_unexported : forall rec tn fs k x opt st p fld,
  find_field fs k = Some (p, fld) -> fexp fld = false ->
  set_field_ rec tn fs k x opt st = inl (inl EUnexported).
Proof. first [exact ReflectProofs.C15_errors_unexported | apply ReflectProofs.C15_errors_unexported]. Qed.
Print Assumptions C15_errors_unexported.

(* a nil value *)
Theorem C15_errors_nil_value : forall rec tn fs k opt st p fld,
  find_field fs k = Some (p, fld) -> fexp fld = true ->
  set_field_ rec tn fs k VNil opt st = inl (inl ENilValue).
Proof. first [exact ReflectProofs.C15_errors_nil_value | apply ReflectProofs.C15_errors_nil_value]. Qed.
Print Assumptions C15_errors_nil_value.

(* a type mismatch: no coercion (assignable_no_coercion) *)
Theorem C15_errors_type_mismatch : forall rec tn fs k x st p fld,
  find_field fs k = Some (p, fld) -> fexp fld = true -> x <> VNil -> ~ is_block x ->
  (forall q, In q (snd st) -> path_overlap p q = false) ->
  assignable x (ftyp fld) = false ->
  set_field_ rec tn fs k x false st = inl (inl ETypeMismatch) \/
  (length p > 1 /\ set_field_ rec tn fs k x false st = inl (inl ENilEmbedded))%nat.
Proof. first [exact ReflectProofs.C15_errors_type_mismatch | apply ReflectProofs.C15_errors_type_mismatch]. Qed.
Print Assumptions C15_errors_type_mismatch.

(* a non-struct destination for a nested block *)
Theorem C15_errors_block_not_struct : forall order fu tn fs k bt bn bf st p fld,
  find_field fs k = Some (p, fld) -> fexp fld = true ->
  (forall q, In q (snd st) -> path_overlap p q = false) ->
  (forall n' fs', ftyp fld <> TStruct n' fs') ->
  set_field_ (copy_block (S fu) order) tn fs k (VBlock bt bn bf) false st = inl (inl EBlockNotStruct) \/
  (length p > 1 /\
   set_field_ (copy_block (S fu) order) tn fs k (VBlock bt bn bf) false st = inl (inl ENilEmbedded))%nat.
Proof. first [exact ReflectProofs.C15_errors_block_not_struct | apply ReflectProofs.C15_errors_block_not_struct]. Qed.
Print Assumptions C15_errors_block_not_struct.

(* two keys addressing the same or overlapping storage *)
Theorem C15_errors_dup_field : forall rec tn fs k x cur used p fld q,
  find_field fs k = Some (p, fld) -> fexp fld = true -> x <> VNil ->
  In q used -> path_overlap p q = true ->
  set_field_ rec tn fs k x false (cur, used) = inl (inl EDupField).
Proof. first [exact ReflectProofs.C15_errors_dup_field | apply ReflectProofs.C15_errors_dup_field]. Qed.
Print Assumptions C15_errors_dup_field.

(* nil binding *)
Theorem C15_errors_no_binding : forall tg, bind tg BdNone = BErr ENoBinding.
Proof. first [exact ReflectProofs.C15_errors_no_binding | apply ReflectProofs.C15_errors_no_binding]. Qed.
Print Assumptions C15_errors_no_binding.

(* nil target *)
Theorem C15_errors_nil_iface : forall b, b <> BdNone -> bind TgtNilIface b = BErr ENotPointer.
Proof. first [exact ReflectProofs.C15_errors_nil_iface | apply ReflectProofs.C15_errors_nil_iface]. Qed.
Print Assumptions C15_errors_nil_iface.

(* non-pointer target *)
Theorem C15_errors_not_pointer : forall t v b, b <> BdNone -> (forall t', t <> TPtr t') ->
  bind (TgtValue t v) b = BErr ENotPointer.
Proof. first [exact ReflectProofs.C15_errors_not_pointer | apply ReflectProofs.C15_errors_not_pointer]. Qed.
Print Assumptions C15_errors_not_pointer.

(* nil pointer target *)
Theorem C15_errors_nil_pointer : forall t,
  (forall x, bind (TgtNilPtr t) (BdStruct x) = BErr ENotStruct) /\
  (forall l, bind (TgtNilPtr t) (BdSlice l) = BErr ENotSlice) /\
  bind (TgtNilPtr t) BdUnknown = BErr EUnknownBinding.
Proof. first [exact ReflectProofs.C15_errors_nil_pointer | apply ReflectProofs.C15_errors_nil_pointer]. Qed.
Print Assumptions C15_errors_nil_pointer.

(* struct binding, pointer to a non-struct *)
Theorem C15_errors_not_struct : forall t v x, (forall n fs, t <> TStruct n fs) ->
  bind (TgtPtr t v) (BdStruct x) = BErr ENotStruct.
Proof. first [exact ReflectProofs.C15_errors_not_struct | apply ReflectProofs.C15_errors_not_struct]. Qed.
Print Assumptions C15_errors_not_struct.

(* slice binding, pointer to a non-slice *)
Theorem C15_errors_not_slice : forall t v l, (forall et, t <> TSlice et) ->
  bind (TgtPtr t v) (BdSlice l) = BErr ENotSlice.
Proof. first [exact ReflectProofs.C15_errors_not_slice | apply ReflectProofs.C15_errors_not_slice]. Qed.
Print Assumptions C15_errors_not_slice.

(* slice of non-structs *)
Theorem C15_errors_elem_not_struct : forall et v l, (forall n fs, et <> TStruct n fs) ->
  bind (TgtPtr (TSlice et) v) (BdSlice l) = BErr EElemNotStruct.
Proof. first [exact ReflectProofs.C15_errors_elem_not_struct | apply ReflectProofs.C15_errors_elem_not_struct]. Qed.
Print Assumptions C15_errors_elem_not_struct.

(* struct type name vs block type *)
Theorem C15_errors_type_name : forall n fs v bt bn bf, n <> [] -> unsnake_eq n bt = false ->
  bind (TgtPtr (TStruct n fs) v) (BdStruct (VBlock bt bn bf)) = BErr ETypeName.
Proof. first [exact ReflectProofs.C15_errors_type_name | apply ReflectProofs.C15_errors_type_name]. Qed.
Print Assumptions C15_errors_type_name.

(* a slice target is replaced as a whole or not at all *)
Theorem C15_slice_atomic : forall et v0 blks,
  match bind (TgtPtr (TSlice et) v0) (BdSlice blks) with
  | BErr _ => True                                   (* no new value: the old slice stays *)
  | BOk w => exists n efs l, et = TStruct n efs /\ w = GPtrTo (GSlice l) /\ length l = length blks /\
             forall i blk, nth_error blks i = Some blk ->
               exists e, nth_error l i = Some e /\ copy_block 64 sorted_fields et (zero_struct efs) blk = BOk e
  | BPanic => exists n efs blk, et = TStruct n efs /\ In blk blks /\
              copy_block 64 sorted_fields et (zero_struct efs) blk = BPanic
  end.
Proof. first [exact ReflectProofs.C15_slice_atomic | apply ReflectProofs.C15_slice_atomic]. Qed.
Print Assumptions C15_slice_atomic.

Theorem C15_slice_atomic_total : forall et v0 blks,
  Forall (fun v => (bdepth v <= 64)%nat) blks ->
  (exists e, bind (TgtPtr (TSlice et) v0) (BdSlice blks) = BErr e) \/
  (exists n efs l, et = TStruct n efs /\
     bind (TgtPtr (TSlice et) v0) (BdSlice blks) = BOk (GPtrTo (GSlice l)) /\
     Forall2 (fun blk e => copy_block 64 sorted_fields et (zero_struct efs) blk = BOk e) blks l).
Proof. first [exact ReflectProofs.C15_slice_atomic_total | apply ReflectProofs.C15_slice_atomic_total]. Qed.
Print Assumptions C15_slice_atomic_total.

Theorem C15_slice_first_error : forall n efs v0 pre blk post es e,
  Forall2 (fun b x => copy_block 64 sorted_fields (TStruct n efs) (zero_struct efs) b = BOk x) pre es ->
  copy_block 64 sorted_fields (TStruct n efs) (zero_struct efs) blk = BErr e ->
  bind (TgtPtr (TSlice (TStruct n efs)) v0) (BdSlice (pre ++ blk :: post)) = BErr e.
Proof. first [exact ReflectProofs.C15_slice_first_error | apply ReflectProofs.C15_slice_first_error]. Qed.
Print Assumptions C15_slice_first_error.

(* previous elements never matter *)
Theorem C15_slice_discards_old : forall et v0 v1 blks,
  bind (TgtPtr (TSlice et) v0) (BdSlice blks) = bind (TgtPtr (TSlice et) v1) (BdSlice blks).
Proof. first [exact ReflectProofs.C15_slice_discards_old | apply ReflectProofs.C15_slice_discards_old]. Qed.
Print Assumptions C15_slice_discards_old.

(* non-vacuity *)
Example C15_example :
  bind (TgtPtr (TStruct [] [Field (bs "Name") true false [] TString; Field (bs "Port") true false [] TInt]) GZero)
       (BdStruct (VBlock (bs "t") (bs "n") [(bs "port", VInt 5)]))
  = BOk (GPtrTo (GStruct [GVal (VStr (bs "n")); GVal (VInt 5)])).
Proof. vm_compute. reflexivity. Qed.
