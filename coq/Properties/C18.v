(* C18: The command-line tool mirrors the library.

   Model/Cli.v is the transcription of cmd/bcl/args.go.  Flags may come in any order, before or after
   the file argument, repeated, long or short, or clustered as single letters; usage errors are exactly
   the documented ones; --bdump derives its file name from FILE.  That stdout/stderr/exit status equal the
   library's is checked against the real binary (the OS is outside the model: partial).
   Model/CliRun.v is the transcription of cmd/bcl/main.go (run and main): which library calls are made for the
   parsed flags and in which order, what reaches stdout, which file is written, the exit status; the outside world
   (standard input, readable files, whether the dump target can be created and written) is a parameter.  The real
   binary is compared with this model on every case (exit status, stdout, file written, error or not).  Theorems:
   the tool IS the library call sequence (C18_run_is_interpret: without --bdump/--bload, stdout, result and status
   are exactly those of Interpret with the same options); exit status 0 iff no error, 1 iff some error of run, 2 iff
   a usage error (C18_status_spec, C18_main_status_0/1/2); a successful --bdump only adds the file, a failing one executes nothing and writes
   nothing (C18_bdump_ok_only_writes, C18_bdump_target_fails); --bdump followed by --bload reproduces status, result and execution output
   (C18_bdump_then_bload; size bounds of the dump codec as hypotheses); -d/-t/-s only observe at tool level
   (C18_options_only_observe); flag order and clusters lifted to main (C18_main_flag_order, C18_main_cluster). *)
From BCL Require Import Model.Cli Proofs.CliProofs.
Open Scope N_scope.
From BCL Require Import Model.Api Model.DumpLoad Model.CliRun Proofs.CliRunProofs.
From BCL Require Import Proofs.ParserTotal Proofs.SizeBounds.

Theorem C18_flag_order : forall l1 l2 file,
  Forall simple_flag l1 -> Forall simple_flag l2 -> letters l1 = letters l2 ->
  forall pre1 post1 pre2 post2, l1 = pre1 ++ post1 -> l2 = pre2 ++ post2 ->
  is_file_arg file ->
  parse_args (pre1 ++ [file] ++ post1) = parse_args (pre2 ++ [file] ++ post2).
Proof. first [exact CliProofs.C18_flag_order | apply CliProofs.C18_flag_order]. Qed.
Print Assumptions C18_flag_order.

(* a cluster -abc is the same as -a -b -c, for any letters *)
Theorem C18_cluster : forall cs more,
  (2 <= length cs)%nat -> forallb is_lower cs = true ->
  parse_args ((45 :: cs) :: more) = parse_args (map (fun c => [45; c]) cs ++ more).
Proof. first [exact CliProofs.C18_cluster_gen | apply CliProofs.C18_cluster_gen]. Qed.
Print Assumptions C18_cluster.

(* no file argument: standard input *)
Theorem C18_default_stdin : forall l, Forall simple_flag l ->
  parse_args l = let '(d, t, r, s) := letters l in
                 inr (mkArgs [45] d t r s false false [] [] false).
Proof. first [exact CliProofs.C18_default_stdin | apply CliProofs.C18_default_stdin]. Qed.
Print Assumptions C18_default_stdin.

Theorem C18_bdump_name : forall l1 l2 l3 f,
  Forall simple_flag l1 -> Forall simple_flag l2 -> Forall simple_flag l3 ->
  is_file_arg (f ++ bs ".bcl") ->
  parse_args (l1 ++ bs "--bdump" :: l2 ++ (f ++ bs ".bcl") :: l3) =
  let '(d, t, r, s) := letters (l1 ++ l2 ++ l3) in
  inr (mkArgs (f ++ bs ".bcl") d t r s true false (f ++ bs ".bcb") [] false).
Proof. first [exact CliProofs.C18_bdump_name_gen | apply CliProofs.C18_bdump_name_gen]. Qed.
Print Assumptions C18_bdump_name.

(* usage errors *)
Theorem C18_err_unknown_letter : forall pre x more,
  Forall simple_flag pre ->
  x <> 104 -> x <> 100 -> x <> 116 -> x <> 114 -> x <> 115 -> x <> 45 ->
  parse_args (pre ++ [45; x] :: more) = inl (UUnknownFlag [45; x]).
Proof. first [exact CliProofs.C18_err_unknown_letter | apply CliProofs.C18_err_unknown_letter]. Qed.
Print Assumptions C18_err_unknown_letter.

Theorem C18_err_unknown_long : forall pre c w more,
  Forall simple_flag pre ->
  let arg := 45 :: 45 :: c :: w in
  arg <> bs "--disasm" -> arg <> bs "--trace" -> arg <> bs "--result" -> arg <> bs "--stats" ->
  (forall r, arg <> bs "--bdump" ++ r) -> (forall r, arg <> bs "--bload" ++ r) ->
  parse_args (pre ++ arg :: more) = inl (UUnknownFlag arg).
Proof. first [exact CliProofs.C18_err_unknown_long | apply CliProofs.C18_err_unknown_long]. Qed.
Print Assumptions C18_err_unknown_long.

Theorem C18_err_cluster : forall pre c1 c2 cs more,
  Forall simple_flag pre -> c1 <> 45 ->
  forallb is_lower (c1 :: c2 :: cs) = false ->
  parse_args (pre ++ (45 :: c1 :: c2 :: cs) :: more) = inl (UUnknownFlag (45 :: c1 :: c2 :: cs)).
Proof. first [exact CliProofs.C18_err_cluster | apply CliProofs.C18_err_cluster]. Qed.
Print Assumptions C18_err_cluster.

Theorem C18_err_two_files : forall l1 l2 l3 f1 f2,
  Forall simple_flag l1 -> Forall simple_flag l2 -> Forall simple_flag l3 ->
  is_file_arg f1 -> is_file_arg f2 ->
  parse_args (l1 ++ f1 :: l2 ++ f2 :: l3) = inl UTooMany.
Proof. first [exact CliProofs.C18_err_two_files | apply CliProofs.C18_err_two_files]. Qed.
Print Assumptions C18_err_two_files.

Theorem C18_err_bdump_name : forall l1 l2 l3 f,
  Forall simple_flag l1 -> Forall simple_flag l2 -> Forall simple_flag l3 ->
  is_file_arg f -> has_suffix (bs ".bcl") f = false ->
  parse_args (l1 ++ bs "--bdump" :: l2 ++ f :: l3) = inl UBdumpName.
Proof. first [exact CliProofs.C18_err_bdump_name | apply CliProofs.C18_err_bdump_name]. Qed.
Print Assumptions C18_err_bdump_name.

Theorem C18_err_bload_conflict : forall l1 l2 l3 F f,
  Forall simple_flag l1 -> Forall simple_flag l2 -> Forall simple_flag l3 ->
  is_file_arg f -> F <> [] -> f <> [] ->
  parse_args (l1 ++ (bs "--bload=" ++ F) :: l2 ++ f :: l3) = inl UConflict.
Proof. first [exact CliProofs.C18_err_bload_conflict | apply CliProofs.C18_err_bload_conflict]. Qed.
Print Assumptions C18_err_bload_conflict.

(* the fuel parse_args gives its loop always suffices *)
Theorem C18_fuel_enough : forall args n a rest,
  (fuel_of args <= n)%nat ->
  flags_loop n args a rest = flags_loop (fuel_of args) args a rest.
Proof. first [exact CliProofs.parse_args_fuel_enough | apply CliProofs.parse_args_fuel_enough]. Qed.
Print Assumptions C18_fuel_enough.

Theorem C18_run_is_interpret : forall a w src,
  open_file w (a_file a) = Some src -> a_bload a = false -> a_bdump a = false ->
  let r := cli_run a w in
  let '(pr, io) := interpret (input_name (a_file a)) src (a_disasm a) (a_trace a) (a_stats a) in
  cr_written r = None /\ cr_lfs r = g_lfs (pr_prog pr) /\
  match io with
  | IParseErr diags out =>
    cr_stdout r = out /\ cr_err r = Some (EParse diags) /\ cr_status r = 1 /\ cr_result r = None /\
    cr_warnings r = []
  | IRun out rr =>
    cr_stdout r = out /\ cr_warnings r = rr_warn rr /\
    match rr_res rr with
    | VOk => cr_status r = 0 /\ cr_err r = None /\ cr_result r = (if a_result a then Some rr else None)
    | VErr pos msg => cr_status r = 1 /\ cr_err r = Some (ERuntime pos msg) /\ cr_result r = None
    | VInternal msg => cr_status r = 1 /\ cr_err r = Some (EInternal msg) /\ cr_result r = None
    | VPanic _ => cr_status r = 1 /\ cr_err r = Some (EModel (bs "vm panic site")) /\ cr_result r = None
    end
  | IModelFail _ => False
  end.
Proof. first [exact CliRunProofs.run_is_interpret | apply CliRunProofs.run_is_interpret]. Qed.
Print Assumptions C18_run_is_interpret.

Theorem C18_status_spec : forall a w, cr_status (cli_run a w) = 0 <-> cr_err (cli_run a w) = None.
Proof. first [exact CliRunProofs.status_spec | apply CliRunProofs.status_spec]. Qed.
Print Assumptions C18_status_spec.

Theorem C18_status_1 : forall a w, cr_status (cli_run a w) = 1 <-> exists e, cr_err (cli_run a w) = Some e.
Proof. first [exact CliRunProofs.status_1_spec | apply CliRunProofs.status_1_spec]. Qed.
Print Assumptions C18_status_1.

Theorem C18_main_status_2 : forall argv w,
  main_status (cli_main argv w) = 2 <-> exists e, parse_args argv = inl e.
Proof. first [exact CliRunProofs.main_status_2 | apply CliRunProofs.main_status_2]. Qed.
Print Assumptions C18_main_status_2.

Theorem C18_main_status_1 : forall argv w,
  main_status (cli_main argv w) = 1 <->
  exists a e, parse_args argv = inr a /\ a_help a = false /\ cr_err (cli_run a w) = Some e.
Proof. first [exact CliRunProofs.main_status_1 | apply CliRunProofs.main_status_1]. Qed.
Print Assumptions C18_main_status_1.

Theorem C18_main_status_0 : forall argv w,
  main_status (cli_main argv w) = 0 <->
  exists a, parse_args argv = inr a /\ (a_help a = true \/ cr_err (cli_run a w) = None).
Proof. first [exact CliRunProofs.main_status_0 | apply CliRunProofs.main_status_0]. Qed.
Print Assumptions C18_main_status_0.

Theorem C18_bdump_ok_only_writes : forall a w g o b,
  obtain a w = inr (g, o) -> a_bdump a = true -> w_target w (a_bdumpFile a) = TgOk ->
  dump (parts_of_prog g) = Ok b ->
  cli_run a w = with_written (cli_run (no_bdump a) w) (Some (a_bdumpFile a, b)) /\
  cr_written (cli_run (no_bdump a) w) = None.
Proof. first [exact CliRunProofs.bdump_ok_only_writes | apply CliRunProofs.bdump_ok_only_writes]. Qed.
Print Assumptions C18_bdump_ok_only_writes.

Theorem C18_bdump_target_fails : forall a w g o,
  obtain a w = inr (g, o) -> a_bdump a = true -> w_target w (a_bdumpFile a) <> TgOk ->
  let r := cli_run a w in
  cr_status r = 1 /\ cr_stdout r = o /\ cr_written r = None /\ cr_result r = None /\ cr_warnings r = [] /\
  match w_target w (a_bdumpFile a) with
  | TgCreateFails => cr_err r = Some EDumpCreate
  | _ => cr_err r = Some EDumpWrite \/
         (cr_err r = Some (EModel (bs "dump panic site")) /\ exists k, dump (parts_of_prog g) = Panic k)
  end.
Proof. first [exact CliRunProofs.bdump_target_fails | apply CliRunProofs.bdump_target_fails]. Qed.
Print Assumptions C18_bdump_target_fails.

Theorem C18_bdump_then_bload : forall a w src f b a' w',
  open_file w (a_file a) = Some src -> a_bload a = false ->
  consts_bounded (input_name (a_file a)) src -> dump_bounded (input_name (a_file a)) src ->
  cr_written (cli_run a w) = Some (f, b) ->
  a_bload a' = true -> a_bdump a' = false -> a_file a' = f -> open_file w' f = Some b ->
  a_trace a' = a_trace a -> a_stats a' = a_stats a -> a_result a' = a_result a ->
  let pr := parse_whole (input_name (a_file a)) src in
  let g := pr_prog pr in
  let rr := execute g (a_trace a) (a_stats a) in
  let r := cli_run a w in
  let r' := cli_run a' w' in
  (a_bdump a = true /\ w_target w (a_bdumpFile a) = TgOk /\ f = a_bdumpFile a /\ pr_ok pr = true /\
   dump (parts_of_prog g) = Ok b /\ load_bytes b = Ok (parts_of_prog g)) /\
  cr_stdout r = dis_lines (a_disasm a) g ++ ps_lines (a_stats a) pr ++ rr_out rr /\
  cr_stdout r' = dis_lines (a_disasm a') g ++ rr_out rr /\
  cr_status r' = cr_status r /\ cr_err r' = cr_err r /\ cr_result r' = cr_result r /\
  cr_warnings r' = cr_warnings r /\ cr_lfs r' = cr_lfs r /\ cr_written r' = None.
Proof. first [exact CliRunProofs.bdump_then_bload | apply CliRunProofs.bdump_then_bload]. Qed.
Print Assumptions C18_bdump_then_bload.

Theorem C18_options_only_observe : forall a a' w, same_but_opts a a' -> agree (cli_run a w) (cli_run a' w).
Proof. first [exact CliRunProofs.options_only_observe | apply CliRunProofs.options_only_observe]. Qed.
Print Assumptions C18_options_only_observe.

Theorem C18_main_flag_order : forall pre1 post1 pre2 post2 file w,
  Forall simple_flag (pre1 ++ post1) -> Forall simple_flag (pre2 ++ post2) ->
  same_flags (pre1 ++ post1) (pre2 ++ post2) -> is_file_arg file ->
  cli_main (pre1 ++ [file] ++ post1) w = cli_main (pre2 ++ [file] ++ post2) w.
Proof. first [exact CliRunProofs.cli_flag_order | apply CliRunProofs.cli_flag_order]. Qed.
Print Assumptions C18_main_flag_order.

Theorem C18_main_cluster : forall cs more w,
  (2 <= length cs)%nat -> forallb is_lower cs = true ->
  cli_main ((45 :: cs) :: more) w = cli_main (map (fun c => [45; c]) cs ++ more) w.
Proof. first [exact CliRunProofs.cli_cluster | apply CliRunProofs.cli_cluster]. Qed.
Print Assumptions C18_main_cluster.

(* the model's own failure constructors are unreachable on the source path, except for the excluded repetition case *)
Theorem C18_never_model_gives_up : forall a w src what,
  open_file w (a_file a) = Some src -> a_bload a = false ->
  consts_bounded (input_name (a_file a)) src ->
  (a_bdump a = true -> dump_bounded (input_name (a_file a)) src) ->
  cr_err (cli_run a w) = Some (EModel what) ->
  what = bs "vm panic site" /\
  pr_ok (parse_whole (input_name (a_file a)) src) = true /\
  rr_res (execute (pr_prog (parse_whole (input_name (a_file a)) src)) (a_trace a) (a_stats a)) = VPanic PExcluded.
Proof. first [exact CliRunProofs.never_model_gives_up | apply CliRunProofs.never_model_gives_up]. Qed.
Print Assumptions C18_never_model_gives_up.

Theorem C18_bdump_then_bload_input : forall a w src f b a' w',
  open_file w (a_file a) = Some src -> a_bload a = false ->
  nlen src < 2^56 -> nlen (input_name (a_file a)) < 2^64 ->
  cr_written (cli_run a w) = Some (f, b) ->
  a_bload a' = true -> a_bdump a' = false -> a_file a' = f -> open_file w' f = Some b ->
  a_trace a' = a_trace a -> a_stats a' = a_stats a -> a_result a' = a_result a ->
  let pr := parse_whole (input_name (a_file a)) src in
  let g := pr_prog pr in
  let rr := execute g (a_trace a) (a_stats a) in
  let r := cli_run a w in
  let r' := cli_run a' w' in
  (a_bdump a = true /\ w_target w (a_bdumpFile a) = TgOk /\ f = a_bdumpFile a /\ pr_ok pr = true /\
   dump (parts_of_prog g) = Ok b /\ load_bytes b = Ok (parts_of_prog g)) /\
  cr_stdout r = dis_lines (a_disasm a) g ++ ps_lines (a_stats a) pr ++ rr_out rr /\
  cr_stdout r' = dis_lines (a_disasm a') g ++ rr_out rr /\
  cr_status r' = cr_status r /\ cr_err r' = cr_err r /\ cr_result r' = cr_result r /\
  cr_warnings r' = cr_warnings r /\ cr_lfs r' = cr_lfs r /\ cr_written r' = None.
Proof. first [exact SizeBounds.bdump_then_bload_input | apply SizeBounds.bdump_then_bload_input]. Qed.
Print Assumptions C18_bdump_then_bload_input.

Theorem C18_never_model_gives_up_input : forall a w src what,
  open_file w (a_file a) = Some src -> a_bload a = false ->
  nlen src < 2^56 -> nlen (input_name (a_file a)) < 2^64 ->
  cr_err (cli_run a w) = Some (EModel what) ->
  what = bs "vm panic site" /\
  pr_ok (parse_whole (input_name (a_file a)) src) = true /\
  rr_res (execute (pr_prog (parse_whole (input_name (a_file a)) src)) (a_trace a) (a_stats a)) = VPanic PExcluded.
Proof. first [exact SizeBounds.never_model_gives_up_input | apply SizeBounds.never_model_gives_up_input]. Qed.
Print Assumptions C18_never_model_gives_up_input.

Example C18_example :
  Cli.parse_args [bs "-dts"; bs "x.bcl"] = Cli.parse_args [bs "x.bcl"; bs "-s"; bs "--trace"; bs "-d"]
  /\ exit_status true false = 2 /\ exit_status false true = 1 /\ exit_status false false = 0.
Proof. vm_compute. repeat split; reflexivity. Qed.
