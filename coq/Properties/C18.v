(* C18: The command-line tool mirrors the library (argument parsing part).

   Model/Cli.v is the transcription of cmd/bcl/args.go.  Flags may come in any order, before or after
   the file argument, repeated, long or short, or clustered as single letters; usage errors are exactly
   the documented ones; --bdump derives its file name from FILE.  That stdout/stderr/exit status equal the
   library's is checked against the real binary (the OS is outside the model: partial). *)
From BCL Require Import Model.Cli Proofs.CliProofs.
Open Scope N_scope.

Theorem C18_flag_order : forall l1 l2 file,
  Forall simple_flag l1 -> Forall simple_flag l2 -> letters l1 = letters l2 ->
  forall pre1 post1 pre2 post2, l1 = pre1 ++ post1 -> l2 = pre2 ++ post2 ->
  is_file_arg file ->
  parse_args (pre1 ++ [file] ++ post1) = parse_args (pre2 ++ [file] ++ post2).
Proof. first [exact CliProofs.C18_flag_order | apply CliProofs.C18_flag_order]. Qed.
Print Assumptions C18_flag_order.

(* a cluster -abc is the same as -a -b -c, for any letters *)
Theorem C18_cluster : forall cs more,
  (2 <= length cs)%nat -> forallb is_lower cs = true ->
  parse_args ((45 :: cs) :: more) = parse_args (map (fun c => [45; c]) cs ++ more).
Proof. first [exact CliProofs.C18_cluster_gen | apply CliProofs.C18_cluster_gen]. Qed.
Print Assumptions C18_cluster.

(* no file argument: standard input *)
Theorem C18_default_stdin : forall l, Forall simple_flag l ->
  parse_args l = let '(d, t, r, s) := letters l in
                 inr (mkArgs [45] d t r s false false [] [] false).
Proof. first [exact CliProofs.C18_default_stdin | apply CliProofs.C18_default_stdin]. Qed.
Print Assumptions C18_default_stdin.

Theorem C18_bdump_name : forall l1 l2 l3 f,
  Forall simple_flag l1 -> Forall simple_flag l2 -> Forall simple_flag l3 ->
  is_file_arg (f ++ bs ".bcl") ->
  parse_args (l1 ++ bs "--bdump" :: l2 ++ (f ++ bs ".bcl") :: l3) =
  let '(d, t, r, s) := letters (l1 ++ l2 ++ l3) in
  inr (mkArgs (f ++ bs ".bcl") d t r s true false (f ++ bs ".bcb") [] false).
Proof. first [exact CliProofs.C18_bdump_name_gen | apply CliProofs.C18_bdump_name_gen]. Qed.
Print Assumptions C18_bdump_name.

(* usage errors *)
Theorem C18_err_unknown_letter : forall pre x more,
  Forall simple_flag pre ->
  x <> 104 -> x <> 100 -> x <> 116 -> x <> 114 -> x <> 115 -> x <> 45 ->
  parse_args (pre ++ [45; x] :: more) = inl (UUnknownFlag [45; x]).
Proof. first [exact CliProofs.C18_err_unknown_letter | apply CliProofs.C18_err_unknown_letter]. Qed.
Print Assumptions C18_err_unknown_letter.

Theorem C18_err_unknown_long : forall pre c w more,
  Forall simple_flag pre ->
  let arg := 45 :: 45 :: c :: w in
  arg <> bs "--disasm" -> arg <> bs "--trace" -> arg <> bs "--result" -> arg <> bs "--stats" ->
  (forall r, arg <> bs "--bdump" ++ r) -> (forall r, arg <> bs "--bload" ++ r) ->
  parse_args (pre ++ arg :: more) = inl (UUnknownFlag arg).
Proof. first [exact CliProofs.C18_err_unknown_long | apply CliProofs.C18_err_unknown_long]. Qed.
Print Assumptions C18_err_unknown_long.

Theorem C18_err_cluster : forall pre c1 c2 cs more,
  Forall simple_flag pre -> c1 <> 45 ->
  forallb is_lower (c1 :: c2 :: cs) = false ->
  parse_args (pre ++ (45 :: c1 :: c2 :: cs) :: more) = inl (UUnknownFlag (45 :: c1 :: c2 :: cs)).
Proof. first [exact CliProofs.C18_err_cluster | apply CliProofs.C18_err_cluster]. Qed.
Print Assumptions C18_err_cluster.

Theorem C18_err_two_files : forall l1 l2 l3 f1 f2,
  Forall simple_flag l1 -> Forall simple_flag l2 -> Forall simple_flag l3 ->
  is_file_arg f1 -> is_file_arg f2 ->
  parse_args (l1 ++ f1 :: l2 ++ f2 :: l3) = inl UTooMany.
Proof. first [exact CliProofs.C18_err_two_files | apply CliProofs.C18_err_two_files]. Qed.
Print Assumptions C18_err_two_files.

Theorem C18_err_bdump_name : forall l1 l2 l3 f,
  Forall simple_flag l1 -> Forall simple_flag l2 -> Forall simple_flag l3 ->
  is_file_arg f -> has_suffix (bs ".bcl") f = false ->
  parse_args (l1 ++ bs "--bdump" :: l2 ++ f :: l3) = inl UBdumpName.
Proof. first [exact CliProofs.C18_err_bdump_name | apply CliProofs.C18_err_bdump_name]. Qed.
Print Assumptions C18_err_bdump_name.

Theorem C18_err_bload_conflict : forall l1 l2 l3 F f,
  Forall simple_flag l1 -> Forall simple_flag l2 -> Forall simple_flag l3 ->
  is_file_arg f -> F <> [] -> f <> [] ->
  parse_args (l1 ++ (bs "--bload=" ++ F) :: l2 ++ f :: l3) = inl UConflict.
Proof. first [exact CliProofs.C18_err_bload_conflict | apply CliProofs.C18_err_bload_conflict]. Qed.
Print Assumptions C18_err_bload_conflict.

(* the fuel parse_args gives its loop always suffices *)
Theorem C18_fuel_enough : forall args n a rest,
  (fuel_of args <= n)%nat ->
  flags_loop n args a rest = flags_loop (fuel_of args) args a rest.
Proof. first [exact CliProofs.parse_args_fuel_enough | apply CliProofs.parse_args_fuel_enough]. Qed.
Print Assumptions C18_fuel_enough.

Example C18_example :
  Cli.parse_args [bs "-dts"; bs "x.bcl"] = Cli.parse_args [bs "x.bcl"; bs "-s"; bs "--trace"; bs "-d"]
  /\ exit_status true false = 2 /\ exit_status false true = 1 /\ exit_status false false = 0.
Proof. vm_compute. repeat split; reflexivity. Qed.
