(* C18: placeholder until the argument-parsing theorems are proved; concrete runs of the model. *)
From BCL Require Import Model.Cli.
Example C18_example :
  Cli.parse_args [bs "-dts"; bs "x.bcl"] = Cli.parse_args [bs "x.bcl"; bs "-s"; bs "--trace"; bs "-d"].
Proof. vm_compute. reflexivity. Qed.
Print Assumptions C18_example.
