(* C07: Streaming parse does not depend on how the input is chunked.

   Model: Model/Lexer.v (lex.go with the repaired next()), Model/Parser.v, Model/Api.v.
   `lex cs` runs the lexer over ANY sequence of chunks: empty chunks, boundaries inside tokens,
   inside multi-byte UTF-8 characters, between the two characters of an operator or an escape.
   The theorems have no side condition on the chunking ("admissible" of the design is True
   after the repair 44cc475). *)
From BCL Require Import Model.Api Proofs.LineCalcProofs Proofs.LexerProofs Proofs.ParserInvProofs.
Open Scope N_scope.

(* one call of next() on any chunking = one step on the concatenated unread bytes *)
Theorem C07_next_abs : forall c, anext (abs c) = (fst (next c), abs (snd (next c))).
Proof. exact next_abs. Qed.
Print Assumptions C07_next_abs.

(* same tokens: types, texts, error kinds and positions *)
Theorem C07_lexer : forall cs, fst (lex cs) = fst (lex [concat cs]).
Proof. exact lex_chunk_independent. Qed.
Print Assumptions C07_lexer.

(* same line table whenever the lexer reached the end of input (always the case for an accepted program) *)
Theorem C07_line_table : forall cs tk,
  last_opt (fst (lex cs)) = Some tk -> ttyp tk = tEOF -> snd (lex cs) = snd (lex [concat cs]).
Proof. exact lex_chunk_independent_lfs. Qed.
Print Assumptions C07_line_table.

(* after a lexical failure the table holds the newlines of the chunks received so far: a prefix *)
Theorem C07_line_table_prefix : forall cs, exists k,
  pending (final_cur cs) = skipn k cs /\ snd (lex cs) = newlines_at (concat (firstn k cs)) 0.
Proof. exact lfs_prefix. Qed.
Print Assumptions C07_line_table_prefix.

(* the parser is a function of the token list: everything it produces except the line table is
   the same for ParseFile over chunks cs and Parse on the whole input *)
Theorem C07_parse_file : forall name cs,
  pr_ok (parse_chunks name cs) = pr_ok (parse_whole name (concat cs))
  /\ pr_diags (parse_chunks name cs) = pr_diags (parse_whole name (concat cs))
  /\ pr_stats (parse_chunks name cs) = pr_stats (parse_whole name (concat cs))
  /\ g_code (pr_prog (parse_chunks name cs)) = g_code (pr_prog (parse_whole name (concat cs)))
  /\ g_consts (pr_prog (parse_chunks name cs)) = g_consts (pr_prog (parse_whole name (concat cs)))
  /\ g_pos (pr_prog (parse_chunks name cs)) = g_pos (pr_prog (parse_whole name (concat cs)))
  /\ g_name (pr_prog (parse_chunks name cs)) = g_name (pr_prog (parse_whole name (concat cs))).
Proof.
  intros name cs. unfold parse_whole.
  assert (G : forall cs1 cs2, fst (lex cs1) = fst (lex cs2) ->
    pr_ok (parse_chunks name cs1) = pr_ok (parse_chunks name cs2)
    /\ pr_diags (parse_chunks name cs1) = pr_diags (parse_chunks name cs2)
    /\ pr_stats (parse_chunks name cs1) = pr_stats (parse_chunks name cs2)
    /\ g_code (pr_prog (parse_chunks name cs1)) = g_code (pr_prog (parse_chunks name cs2))
    /\ g_consts (pr_prog (parse_chunks name cs1)) = g_consts (pr_prog (parse_chunks name cs2))
    /\ g_pos (pr_prog (parse_chunks name cs1)) = g_pos (pr_prog (parse_chunks name cs2))
    /\ g_name (pr_prog (parse_chunks name cs1)) = g_name (pr_prog (parse_chunks name cs2))).
  { intros cs1 cs2 H. unfold parse_chunks.
    destruct (lex cs1) as [t1 l1]. destruct (lex cs2) as [t2 l2]. cbn [fst] in H. subst t2.
    repeat split; reflexivity. }
  exact (G cs [concat cs] (lex_chunk_independent cs)).
Qed.
Print Assumptions C07_parse_file.

(* an accepted parse yields the SAME program, line table included, for every chunking: byte-identical dump *)
Theorem C07_prog_equal : forall name cs,
  pr_ok (parse_chunks name cs) = true ->
  pr_oof (parse_chunks name cs) = false -> pr_panic (parse_chunks name cs) = false ->
  pr_prog (parse_chunks name cs) = pr_prog (parse_whole name (concat cs)).
Proof. first [exact ParserInvProofs.C07_prog_equal | apply ParserInvProofs.C07_prog_equal]. Qed.
Print Assumptions C07_prog_equal.

(* the diagnostic text (line:column of every message) is the same for every chunking, also when the lexer failed early and the two line tables differ *)
Theorem C07_diag_text : forall name cs,
  map (diag_line (g_lfs (pr_prog (parse_chunks name cs)))) (pr_diags (parse_chunks name cs)) =
  map (diag_line (g_lfs (pr_prog (parse_whole name (concat cs)))))
      (pr_diags (parse_whole name (concat cs))).
Proof. first [exact ParserInvProofs.C07_diag_text | apply ParserInvProofs.C07_diag_text]. Qed.
Print Assumptions C07_diag_text.

(* non-vacuity: a boundary inside a 2-byte whitespace character and an empty chunk inside `var` *)
Example C07_example :
  fst (lex [bs "va"; []; bs "r x=1"; [194]; [160] ++ bs "print x"]) = fst (lex [bs "var x=1" ++ [194; 160] ++ bs "print x"])
  /\ length (fst (lex [bs "va"; []; bs "r x=1"; [194]; [160] ++ bs "print x"])) = 7%nat.
Proof. vm_compute. split; reflexivity. Qed.
