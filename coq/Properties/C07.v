(* C07: Bytecode dump and load round trip preserves the program.  (placeholder until the
   proofs of Proofs/DumpLoadProofs.v are merged) *)
From BCL Require Import Model.DumpLoad.
Example C07_example :
  let p := {| p_name := [110]; p_code := [9; 0; 2; 1]; p_consts := [VStr [97; 98]; VInt (-5); VFloat 4609434218613702656; VBool true; VNil];
              p_pos := [3; 3; 300; 70000]; p_lfs := [5; 9] |} in
  match dump p with Ok b => load_bytes b = Ok p | _ => False end.
Proof. vm_compute. reflexivity. Qed.
Print Assumptions C07_example.
