(* C16: Same input, same outcome.

   In the model every entry point is a Gallina function, so "repeating a call gives the same outcome" holds by
   construction; what the theorems state is that the three sources of nondeterminism in the Go code cannot
   reach the outcome:
     map iteration order - Bind visits the keys in sorted order, so its result is the same for every order in
                           which the (distinct) keys of a block are enumerated, at every nesting level
                           (C16_bind_order_deep); the parser's identRefs map is used for lookup only (the
                           constant pool order is that of first use: Model/Parser.v has no map at all, and the
                           harness compares dumps byte for byte);
     goroutine schedule  - ParseFile's outcome is the same in every schedule of its three goroutines
                           (C16_schedule_independent = ProtoProofs.C11_result_schedule_independent), and the
                           chunking of the input does not change the compiled program (C16_chunking_irrelevant);
     earlier calls       - no package-level variable is assigned after init and the execution side never
                           assigns through a Prog (tables regenerated from /repo by tools/gentables on every
                           run: C16_no_global_state, C16_prog_readonly).
   The harness repeats parse / execute / unmarshal in one process and across processes with different
   GOMAXPROCS and hash seeds and compares dumps, output, diagnostics, blocks, bindings, targets and errors. *)
From Coq Require Import List Lia Permutation String.
From BCL Require Import Model.Api Proofs.ParserInvProofs Model.Proto Proofs.ProtoProofs Model.Reflect Proofs.ReflectProofs.
From BCL Require Gen.GenTables Spec.Pinned Proofs.TieGlobals.
Open Scope N_scope.

(* the order in which Bind visits the keys is a function of the key set *)
Theorem C16_sorted_canonical : forall l1 l2,
  Permutation l1 l2 -> NoDup (map fst l1) -> sorted_fields l1 = sorted_fields l2.
Proof. first [exact ReflectProofs.C16_sorted_canonical | apply ReflectProofs.C16_sorted_canonical]. Qed.
Print Assumptions C16_sorted_canonical.

Theorem C16_bind_order : forall tg t n l1 l2,
  Permutation l1 l2 -> NoDup (map fst l1) ->
  bind tg (BdStruct (VBlock t n l1)) = bind tg (BdStruct (VBlock t n l2)).
Proof. first [exact ReflectProofs.C16_bind_order | apply ReflectProofs.C16_bind_order]. Qed.
Print Assumptions C16_bind_order.

(* at every nesting level *)
Theorem C16_bind_order_deep : forall tg b1 b2, veq b1 b2 -> bind tg (BdStruct b1) = bind tg (BdStruct b2).
Proof. first [exact ReflectProofs.C16_bind_order_deep | apply ReflectProofs.C16_bind_order_deep]. Qed.
Print Assumptions C16_bind_order_deep.

Theorem C16_bind_order_deep_slice : forall tg l1 l2, Forall2 veq l1 l2 ->
  bind tg (BdSlice l1) = bind tg (BdSlice l2).
Proof. first [exact ReflectProofs.C16_bind_order_deep_slice | apply ReflectProofs.C16_bind_order_deep_slice]. Qed.
Print Assumptions C16_bind_order_deep_slice.

(* with several faulty fields the same one is reported: the first in sorted key order *)
Theorem C16_errors_first : forall tn fs v0 bt bn kvs pre k x post st1 st' e,
  (tn = [] \/ unsnake_eq tn bt = true) ->
  name_step R63 tn fs v0 bn = inr st1 ->
  sorted_fields kvs = pre ++ (k, x) :: post ->
  run_fields R63 tn fs pre st1 = inr st' ->
  set_field_ R63 tn fs k x false st' = inl (inl e) ->
  bind (TgtPtr (TStruct tn fs) v0) (BdStruct (VBlock bt bn kvs)) = BErr e.
Proof. first [exact ReflectProofs.C15_errors_first | apply ReflectProofs.C15_errors_first]. Qed.
Print Assumptions C16_errors_first.

(* ParseFile: every complete schedule gives the same outcome *)
Local Open Scope nat_scope.
Theorem C16_schedule_independent : forall sc plan fin syn nd sched1 sched2,
  let s0 := init sc plan fin syn nd in
  final (exec s0 sched1) = true -> final (exec s0 sched2) = true ->
  result (exec s0 sched1) = result (exec s0 sched2) /\
  reads (exec s0 sched1) = reads (exec s0 sched2) /\
  closes (exec s0 sched1) = closes (exec s0 sched2).
Proof. first [exact ProtoProofs.C11_result_schedule_independent | apply ProtoProofs.C11_result_schedule_independent]. Qed.
Local Close Scope nat_scope.
Print Assumptions C16_schedule_independent.

(* the compiled program does not depend on how the input was cut into reads *)
Theorem C16_chunking_irrelevant : forall name cs,
  pr_ok (parse_chunks name cs) = true ->
  pr_oof (parse_chunks name cs) = false -> pr_panic (parse_chunks name cs) = false ->
  pr_prog (parse_chunks name cs) = pr_prog (parse_whole name (concat cs)).
Proof. first [exact ParserInvProofs.C07_prog_equal | apply ParserInvProofs.C07_prog_equal]. Qed.
Print Assumptions C16_chunking_irrelevant.

(* no state survives a call: tables regenerated from the source on every run *)
Theorem C16_no_global_state :
  forallb (fun p => negb (snd p)) GenTables.globals_written_after_init = true.
Proof. rewrite TieGlobals.tie_globals. exact TieGlobals.no_global_written. Qed.
Print Assumptions C16_no_global_state.

Theorem C16_prog_readonly : GenTables.prog_writes_in_execution = [].
Proof. rewrite TieGlobals.tie_prog_readonly. exact TieGlobals.prog_readonly_in_execution. Qed.
Print Assumptions C16_prog_readonly.

(* non-vacuity: two enumerations of one block *)
Example C16_example :
  let ty := TStruct [] [Field (bs "Name") true false [] TString; Field (bs "Port") true false [] TInt; Field (bs "Host") true false [] TString] in
  bind (TgtPtr ty GZero) (BdStruct (VBlock (bs "t") (bs "n") [(bs "port", VInt 5); (bs "host", VStr (bs "h"))]))
  = bind (TgtPtr ty GZero) (BdStruct (VBlock (bs "t") (bs "n") [(bs "host", VStr (bs "h")); (bs "port", VInt 5)])).
Proof. vm_compute. reflexivity. Qed.
