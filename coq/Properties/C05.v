(* C05: placeholder until the Reflect proofs are merged; a concrete run of the model. *)
From BCL Require Import Model.Reflect.
Example C05_example :
  bind (TgtPtr (TStruct [] [Field (bs "Name") true false [] TString; Field (bs "Port") true false [] TInt]) GZero)
       (BdStruct (VBlock (bs "t") (bs "n") [(bs "port", VInt 5)]))
  = BOk (GPtrTo (GStruct [GVal (VStr (bs "n")); GVal (VInt 5)])).
Proof. vm_compute. reflexivity. Qed.
Print Assumptions C05_example.
