(* C05: Unmarshal reproduces configuration values in Go structs.

   C05_bind_roundtrip: for every struct type of the supported family (`fam d`: exported, non-embedded,
   untagged fields of scalar or nested-struct type whose names are pairwise distinct after folding case and
   underscores; nesting depth d <= 64) and every value v of that type, binding the blocks that spell v
   (`blocks_of`: lower-cased field names as keys, nested structs as nested blocks, a field folding to "name"
   as the block name) into a zero target yields exactly v.  The remaining links of the chain -- writing the
   blocks as BCL text, lexing, parsing, executing and `bind` selecting the block -- are exercised end to end
   by the harness (render -> Unmarshal -> DeepEqual, with tags, all admitted spellings of keys and slice
   targets), with the model's Bind as the oracle for rejected shapes; the key-matching rule (tag first,
   then case/underscore folding) is Model/Reflect.find_field, compared with the real matcher on every case. *)
From Coq Require Import List Lia.
From BCL Require Import Model.Reflect Proofs.ReflectProofs.
Open Scope N_scope.

Theorem C05_bind_roundtrip : forall d tn fs l bt,
  fam d (TStruct tn fs) -> (d <= 64)%nat -> inhabits (TStruct tn fs) (GStruct l) ->
  (tn = [] \/ unsnake_eq tn bt = true) ->
  bind (TgtPtr (TStruct tn fs) GZero) (BdStruct (blocks_of (TStruct tn fs) (GStruct l) bt))
    = BOk (GPtrTo (GStruct l)).
Proof. first [exact ReflectProofs.C05_bind_roundtrip | apply ReflectProofs.C05_bind_roundtrip]. Qed.
Print Assumptions C05_bind_roundtrip.

(* slice target: length and order of the bound blocks, element i from block i *)
Theorem C05_slice_order_and_length : forall et v0 blks,
  Forall (fun v => (bdepth v <= 64)%nat) blks ->
  (exists e, bind (TgtPtr (TSlice et) v0) (BdSlice blks) = BErr e) \/
  (exists n efs l, et = TStruct n efs /\
     bind (TgtPtr (TSlice et) v0) (BdSlice blks) = BOk (GPtrTo (GSlice l)) /\
     Forall2 (fun blk e => copy_block 64 sorted_fields et (zero_struct efs) blk = BOk e) blks l).
Proof. first [exact ReflectProofs.C15_slice_atomic_total | apply ReflectProofs.C15_slice_atomic_total]. Qed.
Print Assumptions C05_slice_order_and_length.

(* previous elements are discarded *)
Theorem C05_slice_discards_old : forall et v0 v1 blks,
  bind (TgtPtr (TSlice et) v0) (BdSlice blks) = bind (TgtPtr (TSlice et) v1) (BdSlice blks).
Proof. first [exact ReflectProofs.C15_slice_discards_old | apply ReflectProofs.C15_slice_discards_old]. Qed.
Print Assumptions C05_slice_discards_old.

(* the outcome does not depend on the order in which the fields are stored in the block *)
Theorem C05_key_order_irrelevant : forall tg b1 b2, veq b1 b2 -> bind tg (BdStruct b1) = bind tg (BdStruct b2).
Proof. first [exact ReflectProofs.C16_bind_order_deep | apply ReflectProofs.C16_bind_order_deep]. Qed.
Print Assumptions C05_key_order_irrelevant.

(* non-vacuity: an ordinary member of the family and a value of it *)
Example C05_example_holds : fam 2 c05_type /\ inhabits c05_type c05_val.
Proof. split; [exact c05_type_fam | exact c05_val_inhabits]. Qed.
