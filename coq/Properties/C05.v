(* C05: Unmarshal reproduces configuration values in Go structs.

   C05_tree_roundtrip (Proofs/C05Tree.v) starts from the syntax tree of the written text: for every struct type of the
   family `bfam d` (as `fam` below, and a nested struct field's type name, if it has one, matches the field name --
   forced by the rule that a struct type's own name must match the block type) and every value v of it (ints in the
   int64 range, no NaN with the sign bit set), the tree `prog_of_block (tree_of ty v bt)` -- one `def` with a field
   assignment `k = literal` per scalar field (negative numbers written with unary minus, -2^63 as -(2^63-1) - 1) and a
   nested `def` per struct field, followed by `bind bt -> struct` -- is accepted by the code generator, the big-step
   semantics binds exactly that block, Bind stores it into a zero target as exactly v (C05_tree_roundtrip), and
   executing the generated code does the same (C05_code_roundtrip, via T1; up to the two VM limits).  The slice
   forms bind `bt:all -> slice` and yield the values in order.  Text -> tokens -> tree (quoting, number printing) is
   exercised by the harness only.  The statement over `fam`/`blocks_of` with an arbitrary nested type name is FALSE
   at tree level (C05_tree_roundtrip_counterexample: such blocks are not producible by any BCL text) and is kept
   only as a statement about Bind:
   C05_bind_roundtrip: for every struct type of the supported family (`fam d`: exported, non-embedded,
   untagged fields of scalar or nested-struct type whose names are pairwise distinct after folding case and
   underscores; nesting depth d <= 64) and every value v of that type, binding the blocks that spell v
   (`blocks_of`: lower-cased field names as keys, nested structs as nested blocks, a field folding to "name"
   as the block name) into a zero target yields exactly v.  The remaining links of the chain -- writing the
   blocks as BCL text, lexing, parsing, executing and `bind` selecting the block -- are exercised end to end
   by the harness (render -> Unmarshal -> DeepEqual, with tags, all admitted spellings of keys and slice
   targets), with the model's Bind as the oracle for rejected shapes; the key-matching rule (tag first,
   then case/underscore folding) is Model/Reflect.find_field, compared with the real matcher on every case. *)
From Coq Require Import List Lia.
From BCL Require Import Model.Reflect Proofs.ReflectProofs.
Open Scope N_scope.
From BCL Require Import Model.Api Model.Compile Spec.Syntax Spec.AstSem Proofs.T1Expr Proofs.T1Proofs Proofs.C05Tree.

Theorem C05_bind_roundtrip : forall d tn fs l bt,
  fam d (TStruct tn fs) -> (d <= 64)%nat -> inhabits (TStruct tn fs) (GStruct l) ->
  (tn = [] \/ unsnake_eq tn bt = true) ->
  bind (TgtPtr (TStruct tn fs) GZero) (BdStruct (blocks_of (TStruct tn fs) (GStruct l) bt))
    = BOk (GPtrTo (GStruct l)).
Proof. first [exact ReflectProofs.C05_bind_roundtrip | apply ReflectProofs.C05_bind_roundtrip]. Qed.
Print Assumptions C05_bind_roundtrip.

(* slice target: length and order of the bound blocks, element i from block i *)
Theorem C05_slice_order_and_length : forall et v0 blks,
  Forall (fun v => (bdepth v <= 64)%nat) blks ->
  (exists e, bind (TgtPtr (TSlice et) v0) (BdSlice blks) = BErr e) \/
  (exists n efs l, et = TStruct n efs /\
     bind (TgtPtr (TSlice et) v0) (BdSlice blks) = BOk (GPtrTo (GSlice l)) /\
     Forall2 (fun blk e => copy_block 64 sorted_fields et (zero_struct efs) blk = BOk e) blks l).
Proof. first [exact ReflectProofs.C15_slice_atomic_total | apply ReflectProofs.C15_slice_atomic_total]. Qed.
Print Assumptions C05_slice_order_and_length.

(* previous elements are discarded *)
Theorem C05_slice_discards_old : forall et v0 v1 blks,
  bind (TgtPtr (TSlice et) v0) (BdSlice blks) = bind (TgtPtr (TSlice et) v1) (BdSlice blks).
Proof. first [exact ReflectProofs.C15_slice_discards_old | apply ReflectProofs.C15_slice_discards_old]. Qed.
Print Assumptions C05_slice_discards_old.

(* the outcome does not depend on the order in which the fields are stored in the block *)
Theorem C05_key_order_irrelevant : forall tg b1 b2, veq b1 b2 -> bind tg (BdStruct b1) = bind tg (BdStruct b2).
Proof. first [exact ReflectProofs.C16_bind_order_deep | apply ReflectProofs.C16_bind_order_deep]. Qed.
Print Assumptions C05_key_order_irrelevant.

(* value -> tree -> semantics -> Bind = value *)
Theorem C05_tree_roundtrip : forall d tn fs l bt,
  bfam d (TStruct tn fs) -> (d <= 64)%nat -> inhabits (TStruct tn fs) (GStruct l) ->
  (tn = [] \/ unsnake_eq tn bt = true) ->
  vals_ok (GStruct l) ->
  let b := tree_of (TStruct tn fs) (GStruct l) bt in
  exists en b', run_program (prog_of_block b) = (ROk tt, en) /\
    binding_ en = Some (SStruct b') /\ veq b' b /\
    bind (TgtPtr (TStruct tn fs) GZero) (BdStruct b') = BOk (GPtrTo (GStruct l)).
Proof. first [exact C05Tree.C05_tree_roundtrip_bfam | apply C05Tree.C05_tree_roundtrip_bfam]. Qed.
Print Assumptions C05_tree_roundtrip.

(* value -> tree -> generated code -> VM -> Bind = value *)
Theorem C05_code_roundtrip : forall d tn fs l bt name pos lfs,
  bfam d (TStruct tn fs) -> (d <= 64)%nat -> inhabits (TStruct tn fs) (GStruct l) ->
  (tn = [] \/ unsnake_eq tn bt = true) ->
  vals_ok (GStruct l) ->
  let b := tree_of (TStruct tn fs) (GStruct l) bt in
  csize b + 1 < 2^64 ->
  let rr := execute (prog_of_tree (prog_of_block b) name pos lfs) false false in
  hadError (compile_program (prog_of_block b)) = false /\
  (limit_res (rr_res rr) \/
   exists b', rr_res rr = VOk /\ rr_binding rr = BStruct b' /\ print_lines (rr_out rr) = [] /\ rr_warn rr = [] /\
     bind (TgtPtr (TStruct tn fs) GZero) (BdStruct b') = BOk (GPtrTo (GStruct l))).
Proof. first [exact C05Tree.C05_code_roundtrip_bfam | apply C05Tree.C05_code_roundtrip_bfam]. Qed.
Print Assumptions C05_code_roundtrip.

Theorem C05_tree_roundtrip_slice : forall d tn fs vals bt v0,
  bfam d (TStruct tn fs) -> (d <= 64)%nat -> vals <> [] ->
  Forall (fun v => inhabits (TStruct tn fs) v /\ vals_ok v) vals ->
  (tn = [] \/ unsnake_eq tn bt = true) ->
  let bl := map (fun v => tree_of (TStruct tn fs) v bt) vals in
  exists en bl', run_program (prog_of_blocks bt bl) = (ROk tt, en) /\
    binding_ en = Some (SSlice bl') /\ Forall2 veq bl' bl /\
    bind (TgtPtr (TSlice (TStruct tn fs)) v0) (BdSlice bl') = BOk (GPtrTo (GSlice vals)).
Proof. first [exact C05Tree.C05_tree_roundtrip_slice_bfam | apply C05Tree.C05_tree_roundtrip_slice_bfam]. Qed.
Print Assumptions C05_tree_roundtrip_slice.

Theorem C05_code_roundtrip_slice : forall d tn fs vals bt v0 name pos lfs,
  bfam d (TStruct tn fs) -> (d <= 64)%nat -> vals <> [] ->
  Forall (fun v => inhabits (TStruct tn fs) v /\ vals_ok v) vals ->
  (tn = [] \/ unsnake_eq tn bt = true) ->
  let bl := map (fun v => tree_of (TStruct tn fs) v bt) vals in
  csizes bl + 1 < 2^64 ->
  let rr := execute (prog_of_tree (prog_of_blocks bt bl) name pos lfs) false false in
  hadError (compile_program (prog_of_blocks bt bl)) = false /\
  (limit_res (rr_res rr) \/
   exists bl', rr_res rr = VOk /\ rr_binding rr = BSlice bl' /\ print_lines (rr_out rr) = [] /\ rr_warn rr = [] /\
     bind (TgtPtr (TSlice (TStruct tn fs)) v0) (BdSlice bl') = BOk (GPtrTo (GSlice vals))).
Proof. first [exact C05Tree.C05_code_roundtrip_slice_bfam | apply C05Tree.C05_code_roundtrip_slice_bfam]. Qed.
Print Assumptions C05_code_roundtrip_slice.

Theorem C05_tree_bind_roundtrip : forall d tn fs l bt,
  bfam d (TStruct tn fs) -> (d <= 64)%nat -> inhabits (TStruct tn fs) (GStruct l) ->
  (tn = [] \/ unsnake_eq tn bt = true) ->
  bind (TgtPtr (TStruct tn fs) GZero) (BdStruct (tree_of (TStruct tn fs) (GStruct l) bt)) = BOk (GPtrTo (GStruct l)).
Proof. first [exact C05Tree.tree_bind_roundtrip | apply C05Tree.tree_bind_roundtrip]. Qed.
Print Assumptions C05_tree_bind_roundtrip.

(* every scalar is denoted by its literal expression *)
Theorem C05_literals : forall v en, scalar_ok v -> eval (lit_expr v) en = (ROk v, en).
Proof. first [exact C05Tree.eval_lit_expr | apply C05Tree.eval_lit_expr]. Qed.
Print Assumptions C05_literals.

(* the semantics of a written block is that block *)
Theorem C05_run_tree : forall b, wf_block b -> run_program (prog_of_block b) = (ROk tt, env_bound b).
Proof. first [exact C05Tree.run_prog_of_block | apply C05Tree.run_prog_of_block]. Qed.
Print Assumptions C05_run_tree.

(* non-vacuity: an ordinary member of the family and a value of it *)
Example C05_example_holds : fam 2 c05_type /\ inhabits c05_type c05_val.
Proof. split; [exact c05_type_fam | exact c05_val_inhabits]. Qed.
