(* C05: Unmarshal reproduces configuration values in Go structs.

   C05_tree_roundtrip (Proofs/C05Tree.v) starts from the syntax tree of the written text: for every struct type of the
   family `bfam d` (as `fam` below, and a nested struct field's type name, if it has one, matches the field name --
   forced by the rule that a struct type's own name must match the block type) and every value v of it (ints in the
   int64 range, no NaN with the sign bit set), the tree `prog_of_block (tree_of ty v bt)` -- one `def` with a field
   assignment `k = literal` per scalar field (negative numbers written with unary minus, -2^63 as -(2^63-1) - 1) and a
   nested `def` per struct field, followed by `bind bt -> struct` -- is accepted by the code generator, the big-step
   semantics binds exactly that block, Bind stores it into a zero target as exactly v (C05_tree_roundtrip), and
   executing the generated code does the same (C05_code_roundtrip, via T1; up to the two VM limits).  The slice
   forms bind `bt:all -> slice` and yield the values in order.  One level further down (Proofs/C05Tokens.v) the
   writer is defined on TOKENS (`tokens_of_prog`: decimal integers without leading zero, strings quoted with backslash escapes for the quote, the backslash
   and, as backslash-x-HH, every byte outside printable ASCII, negative numbers with unary minus) and the grammar reads its output back as exactly that
   tree (C05_tokens_parse), the one-pass parser accepts it and emits the generator's code, and the round trip
   holds from the token list (C05_token_roundtrip, C05_token_code_roundtrip); literal texts denote their values
   (C05_int_text, C05_quote_text; the text of a float is a premise `parse_float (ftext b) = inr b` per float
   written: float printing is not modelled).  The last link, bytes -> tokens, is Proofs/LexWrite.v: for token lists whose
   texts are what the lexer produces for their type (`lexable`: ASCII identifiers that are not keywords, digit strings,
   float texts with a fraction or an exponent, quoted bodies without raw quote / newline, the fixed keywords and
   punctuation) the lexer reads `render ts` (texts joined by any non-empty ASCII white space) back as exactly those
   tokens plus tEOF (C05_lex_render), hence for the writer's output C05_text_roundtrip: the TEXT of a value is accepted
   by Parse, and executing the compiled program and binding the result into a zero target yields exactly the value.
   Premises that remain on the caller: keys and block types are non-keyword ASCII identifiers and each float written
   has a float text that parses to it (`lex_ok`, `gtext_ok`): float printing is not modelled.  The statement over `fam`/`blocks_of` with an arbitrary nested type name is FALSE
   at tree level (C05_tree_roundtrip_counterexample: such blocks are not producible by any BCL text) and is kept
   only as a statement about Bind:
   C05_bind_roundtrip: for every struct type of the supported family (`fam d`: exported, non-embedded,
   untagged fields of scalar or nested-struct type whose names are pairwise distinct after folding case and
   underscores; nesting depth d <= 64) and every value v of that type, binding the blocks that spell v
   (`blocks_of`: lower-cased field names as keys, nested structs as nested blocks, a field folding to "name"
   as the block name) into a zero target yields exactly v.  The remaining links of the chain -- writing the
   blocks as BCL text, lexing, parsing, executing and `bind` selecting the block -- are exercised end to end
   by the harness (render -> Unmarshal -> DeepEqual, with tags, all admitted spellings of keys and slice
   targets), with the model's Bind as the oracle for rejected shapes; the key-matching rule (tag first,
   then case/underscore folding) is Model/Reflect.find_field, compared with the real matcher on every case. *)
From Coq Require Import List Lia.
From BCL Require Import Model.Reflect Proofs.ReflectProofs.
Open Scope N_scope.
From BCL Require Import Model.Api Model.Compile Spec.Syntax Spec.AstSem Proofs.T1Expr Proofs.T1Proofs Proofs.C05Tree.
From BCL Require Import Proofs.LayoutTree Proofs.C05Tokens.
From BCL Require Import Proofs.LayoutProofs Proofs.LexWrite.

Theorem C05_bind_roundtrip : forall d tn fs l bt,
  fam d (TStruct tn fs) -> (d <= 64)%nat -> inhabits (TStruct tn fs) (GStruct l) ->
  (tn = [] \/ unsnake_eq tn bt = true) ->
  bind (TgtPtr (TStruct tn fs) GZero) (BdStruct (blocks_of (TStruct tn fs) (GStruct l) bt))
    = BOk (GPtrTo (GStruct l)).
Proof. first [exact ReflectProofs.C05_bind_roundtrip | apply ReflectProofs.C05_bind_roundtrip]. Qed.
Print Assumptions C05_bind_roundtrip.

(* slice target: length and order of the bound blocks, element i from block i *)
Theorem C05_slice_order_and_length : forall et v0 blks,
  Forall (fun v => (bdepth v <= 64)%nat) blks ->
  (exists e, bind (TgtPtr (TSlice et) v0) (BdSlice blks) = BErr e) \/
  (exists n efs l, et = TStruct n efs /\
     bind (TgtPtr (TSlice et) v0) (BdSlice blks) = BOk (GPtrTo (GSlice l)) /\
     Forall2 (fun blk e => copy_block 64 sorted_fields et (zero_struct efs) blk = BOk e) blks l).
Proof. first [exact ReflectProofs.C15_slice_atomic_total | apply ReflectProofs.C15_slice_atomic_total]. Qed.
Print Assumptions C05_slice_order_and_length.

(* previous elements are discarded *)
Theorem C05_slice_discards_old : forall et v0 v1 blks,
  bind (TgtPtr (TSlice et) v0) (BdSlice blks) = bind (TgtPtr (TSlice et) v1) (BdSlice blks).
Proof. first [exact ReflectProofs.C15_slice_discards_old | apply ReflectProofs.C15_slice_discards_old]. Qed.
Print Assumptions C05_slice_discards_old.

(* the outcome does not depend on the order in which the fields are stored in the block *)
Theorem C05_key_order_irrelevant : forall tg b1 b2, veq b1 b2 -> bind tg (BdStruct b1) = bind tg (BdStruct b2).
Proof. first [exact ReflectProofs.C16_bind_order_deep | apply ReflectProofs.C16_bind_order_deep]. Qed.
Print Assumptions C05_key_order_irrelevant.

(* value -> tree -> semantics -> Bind = value *)
Theorem C05_tree_roundtrip : forall d tn fs l bt,
  bfam d (TStruct tn fs) -> (d <= 64)%nat -> inhabits (TStruct tn fs) (GStruct l) ->
  (tn = [] \/ unsnake_eq tn bt = true) ->
  vals_ok (GStruct l) ->
  let b := tree_of (TStruct tn fs) (GStruct l) bt in
  exists en b', run_program (prog_of_block b) = (ROk tt, en) /\
    binding_ en = Some (SStruct b') /\ veq b' b /\
    bind (TgtPtr (TStruct tn fs) GZero) (BdStruct b') = BOk (GPtrTo (GStruct l)).
Proof. first [exact C05Tree.C05_tree_roundtrip_bfam | apply C05Tree.C05_tree_roundtrip_bfam]. Qed.
Print Assumptions C05_tree_roundtrip.

(* value -> tree -> generated code -> VM -> Bind = value *)
Theorem C05_code_roundtrip : forall d tn fs l bt name pos lfs,
  bfam d (TStruct tn fs) -> (d <= 64)%nat -> inhabits (TStruct tn fs) (GStruct l) ->
  (tn = [] \/ unsnake_eq tn bt = true) ->
  vals_ok (GStruct l) ->
  let b := tree_of (TStruct tn fs) (GStruct l) bt in
  csize b + 1 < 2^64 ->
  let rr := execute (prog_of_tree (prog_of_block b) name pos lfs) false false in
  hadError (compile_program (prog_of_block b)) = false /\
  (limit_res (rr_res rr) \/
   exists b', rr_res rr = VOk /\ rr_binding rr = BStruct b' /\ print_lines (rr_out rr) = [] /\ rr_warn rr = [] /\
     bind (TgtPtr (TStruct tn fs) GZero) (BdStruct b') = BOk (GPtrTo (GStruct l))).
Proof. first [exact C05Tree.C05_code_roundtrip_bfam | apply C05Tree.C05_code_roundtrip_bfam]. Qed.
Print Assumptions C05_code_roundtrip.

Theorem C05_tree_roundtrip_slice : forall d tn fs vals bt v0,
  bfam d (TStruct tn fs) -> (d <= 64)%nat -> vals <> [] ->
  Forall (fun v => inhabits (TStruct tn fs) v /\ vals_ok v) vals ->
  (tn = [] \/ unsnake_eq tn bt = true) ->
  let bl := map (fun v => tree_of (TStruct tn fs) v bt) vals in
  exists en bl', run_program (prog_of_blocks bt bl) = (ROk tt, en) /\
    binding_ en = Some (SSlice bl') /\ Forall2 veq bl' bl /\
    bind (TgtPtr (TSlice (TStruct tn fs)) v0) (BdSlice bl') = BOk (GPtrTo (GSlice vals)).
Proof. first [exact C05Tree.C05_tree_roundtrip_slice_bfam | apply C05Tree.C05_tree_roundtrip_slice_bfam]. Qed.
Print Assumptions C05_tree_roundtrip_slice.

Theorem C05_code_roundtrip_slice : forall d tn fs vals bt v0 name pos lfs,
  bfam d (TStruct tn fs) -> (d <= 64)%nat -> vals <> [] ->
  Forall (fun v => inhabits (TStruct tn fs) v /\ vals_ok v) vals ->
  (tn = [] \/ unsnake_eq tn bt = true) ->
  let bl := map (fun v => tree_of (TStruct tn fs) v bt) vals in
  csizes bl + 1 < 2^64 ->
  let rr := execute (prog_of_tree (prog_of_blocks bt bl) name pos lfs) false false in
  hadError (compile_program (prog_of_blocks bt bl)) = false /\
  (limit_res (rr_res rr) \/
   exists bl', rr_res rr = VOk /\ rr_binding rr = BSlice bl' /\ print_lines (rr_out rr) = [] /\ rr_warn rr = [] /\
     bind (TgtPtr (TSlice (TStruct tn fs)) v0) (BdSlice bl') = BOk (GPtrTo (GSlice vals))).
Proof. first [exact C05Tree.C05_code_roundtrip_slice_bfam | apply C05Tree.C05_code_roundtrip_slice_bfam]. Qed.
Print Assumptions C05_code_roundtrip_slice.

Theorem C05_tree_bind_roundtrip : forall d tn fs l bt,
  bfam d (TStruct tn fs) -> (d <= 64)%nat -> inhabits (TStruct tn fs) (GStruct l) ->
  (tn = [] \/ unsnake_eq tn bt = true) ->
  bind (TgtPtr (TStruct tn fs) GZero) (BdStruct (tree_of (TStruct tn fs) (GStruct l) bt)) = BOk (GPtrTo (GStruct l)).
Proof. first [exact C05Tree.tree_bind_roundtrip | apply C05Tree.tree_bind_roundtrip]. Qed.
Print Assumptions C05_tree_bind_roundtrip.

(* every scalar is denoted by its literal expression *)
Theorem C05_literals : forall v en, scalar_ok v -> eval (lit_expr v) en = (ROk v, en).
Proof. first [exact C05Tree.eval_lit_expr | apply C05Tree.eval_lit_expr]. Qed.
Print Assumptions C05_literals.

(* the semantics of a written block is that block *)
Theorem C05_run_tree : forall b, wf_block b -> run_program (prog_of_block b) = (ROk tt, env_bound b).
Proof. first [exact C05Tree.run_prog_of_block | apply C05Tree.run_prog_of_block]. Qed.
Print Assumptions C05_run_tree.

Theorem C05_tokens_parse :
  forall (ftext : N -> bytes) (t n : bytes) (fs : list (bytes * value)),
       text_ok ftext (VBlock t n fs) ->
       ast_program (tokens_of_prog ftext (VBlock t n fs)) = Some (prog_of_block (VBlock t n fs)).
Proof. first [exact C05Tokens.tokens_parse | apply C05Tokens.tokens_parse]. Qed.
Print Assumptions C05_tokens_parse.

Theorem C05_tokens_parse_slice :
  forall (ftext : N -> bytes) (bt : bytes) (l : list value),
       Forall (fun x : value => exists (t n : bytes) (fs : list (bytes * value)), x = VBlock t n fs /\ text_ok ftext x)
         l -> ast_program (tokens_of_progs ftext bt l) = Some (prog_of_blocks bt l).
Proof. first [exact C05Tokens.tokens_parse_slice | apply C05Tokens.tokens_parse_slice]. Qed.
Print Assumptions C05_tokens_parse_slice.

Theorem C05_parser_accepts_written :
  forall (ftext : N -> bytes) (t n : bytes) (fs : list (bytes * value)),
       text_ok ftext (VBlock t n fs) ->
       let b := VBlock t n fs in
       let ps := parse_tokens (tokens_of_prog ftext b) in
       hadError ps = false /\
       oof ps = false /\
       ppanic ps = false /\
       code ps = code (compile_program (prog_of_block b)) /\
       consts ps = consts (compile_program (prog_of_block b)) /\
       (forall (name : bytes) (pos lfs : list N),
        prog_of_pst ps name pos lfs = prog_of_tree (prog_of_block b) name pos lfs).
Proof. first [exact C05Tokens.parser_accepts_written | apply C05Tokens.parser_accepts_written]. Qed.
Print Assumptions C05_parser_accepts_written.

Theorem C05_token_roundtrip :
  forall (ftext : N -> bytes) (d : nat) (tn : bytes) (fs : list field) (l : list goval) (bt : bytes),
       bfam d (TStruct tn fs) ->
       (d <= 64)%nat ->
       inhabits (TStruct tn fs) (GStruct l) ->
       tn = [] \/ unsnake_eq tn bt = true ->
       vals_ok (GStruct l) ->
       gtext_ok ftext (GStruct l) ->
       let b := tree_of (TStruct tn fs) (GStruct l) bt in
       exists p : list stmt,
         ast_program (tokens_of_prog ftext b) = Some p /\
         p = prog_of_block b /\
         (exists (en : env) (b' : value),
            run_program p = (ROk tt, en) /\
            binding_ en = Some (SStruct b') /\
            veq b' b /\ bind (TgtPtr (TStruct tn fs) GZero) (BdStruct b') = BOk (GPtrTo (GStruct l))).
Proof. first [exact C05Tokens.C05_token_roundtrip | apply C05Tokens.C05_token_roundtrip]. Qed.
Print Assumptions C05_token_roundtrip.

Theorem C05_token_code_roundtrip :
  forall (ftext : N -> bytes) (d : nat) (tn : bytes) (fs : list field) (l : list goval) 
         (bt name : bytes) (pos lfs : list N),
       bfam d (TStruct tn fs) ->
       (d <= 64)%nat ->
       inhabits (TStruct tn fs) (GStruct l) ->
       tn = [] \/ unsnake_eq tn bt = true ->
       vals_ok (GStruct l) ->
       gtext_ok ftext (GStruct l) ->
       let b := tree_of (TStruct tn fs) (GStruct l) bt in
       csize b + 1 < 2 ^ 64 ->
       let ps := parse_tokens (tokens_of_prog ftext b) in
       hadError ps = false /\
       oof ps = false /\
       ppanic ps = false /\
       (let rr := execute (prog_of_pst ps name pos lfs) false false in
        limit_res (rr_res rr) \/
        (exists b' : value,
           rr_res rr = VOk /\
           rr_binding rr = BStruct b' /\
           print_lines (rr_out rr) = [] /\
           rr_warn rr = [] /\ bind (TgtPtr (TStruct tn fs) GZero) (BdStruct b') = BOk (GPtrTo (GStruct l)))).
Proof. first [exact C05Tokens.C05_token_code_roundtrip | apply C05Tokens.C05_token_code_roundtrip]. Qed.
Print Assumptions C05_token_code_roundtrip.

Theorem C05_token_roundtrip_slice :
  forall (ftext : N -> bytes) (d : nat) (tn : bytes) (fs : list field) (vals : list goval) 
         (bt : bytes) (v0 : goval),
       bfam d (TStruct tn fs) ->
       (d <= 64)%nat ->
       vals <> [] ->
       Forall (fun v : goval => inhabits (TStruct tn fs) v /\ vals_ok v) vals ->
       Forall (fun v : goval => inhabits (TStruct tn fs) v /\ gtext_ok ftext v) vals ->
       tn = [] \/ unsnake_eq tn bt = true ->
       let bl := map (fun v : goval => tree_of (TStruct tn fs) v bt) vals in
       exists p : list stmt,
         ast_program (tokens_of_progs ftext bt bl) = Some p /\
         p = prog_of_blocks bt bl /\
         (exists (en : env) (bl' : list value),
            run_program p = (ROk tt, en) /\
            binding_ en = Some (SSlice bl') /\
            Forall2 veq bl' bl /\ bind (TgtPtr (TSlice (TStruct tn fs)) v0) (BdSlice bl') = BOk (GPtrTo (GSlice vals))).
Proof. first [exact C05Tokens.C05_token_roundtrip_slice | apply C05Tokens.C05_token_roundtrip_slice]. Qed.
Print Assumptions C05_token_roundtrip_slice.

Theorem C05_int_text : forall n, n < 2^63 -> parse_int (int_text n) = inr (Z.of_N n).
Proof. first [exact C05Tokens.parse_int_text | apply C05Tokens.parse_int_text]. Qed.
Print Assumptions C05_int_text.

Theorem C05_quote_text : forall s, Forall byte_ok s -> unquote (quote_text s) = Some s.
Proof. first [exact C05Tokens.unquote_quote_text | apply C05Tokens.unquote_quote_text]. Qed.
Print Assumptions C05_quote_text.

Theorem C05_lex_render : forall ts, Forall lexable ts ->
  map strip (fst (lex [render ts])) = map strip ts ++ [(tEOF, [])].
Proof. first [exact LexWrite.lex_render | apply LexWrite.lex_render]. Qed.
Print Assumptions C05_lex_render.

Theorem C05_lex_render_any_sep : forall sep ts, sep <> [] -> Forall ws_byte sep -> Forall lexable ts ->
  map strip (fst (lex [render_sep sep ts])) = map strip ts ++ [(tEOF, [])].
Proof. first [exact LexWrite.lex_render_any_sep | apply LexWrite.lex_render_any_sep]. Qed.
Print Assumptions C05_lex_render_any_sep.

Theorem C05_text_parse :
  forall (ftext : N -> bytes) (t n : bytes) (fs : list (bytes * value)),
       text_ok ftext (VBlock t n fs) ->
       lex_ok ftext (VBlock t n fs) ->
       ast_program (fst (lex [render (tokens_of_prog ftext (VBlock t n fs))])) = Some (prog_of_block (VBlock t n fs)).
Proof. first [exact LexWrite.text_parse | apply LexWrite.text_parse]. Qed.
Print Assumptions C05_text_parse.

Theorem C05_text_roundtrip :
  forall (ftext : N -> bytes) (d : nat) (tn : bytes) (fs : list field) (l : list goval) (bt name : bytes),
       bfam d (TStruct tn fs) ->
       (d <= 64)%nat ->
       inhabits (TStruct tn fs) (GStruct l) ->
       tn = [] \/ unsnake_eq tn bt = true ->
       vals_ok (GStruct l) ->
       gtext_ok ftext (GStruct l) ->
       let b := tree_of (TStruct tn fs) (GStruct l) bt in
       lex_ok ftext b ->
       csize b + 1 < 2 ^ 64 ->
       let src := render (tokens_of_prog ftext b) in
       map strip (fst (lex [src])) = map strip (tokens_of_prog ftext b) /\
       (let pr := parse_whole name src in
        pr_ok pr = true /\
        pr_oof pr = false /\
        pr_panic pr = false /\
        (let rr := execute (pr_prog pr) false false in
         limit_res (rr_res rr) \/
         (exists b' : value,
            rr_res rr = VOk /\
            rr_binding rr = BStruct b' /\
            print_lines (rr_out rr) = [] /\
            rr_warn rr = [] /\ bind (TgtPtr (TStruct tn fs) GZero) (BdStruct b') = BOk (GPtrTo (GStruct l))))).
Proof. first [exact LexWrite.C05_text_roundtrip | apply LexWrite.C05_text_roundtrip]. Qed.
Print Assumptions C05_text_roundtrip.

Theorem C05_text_roundtrip_slice :
  forall (ftext : N -> bytes) (d : nat) (tn : bytes) (fs : list field) (vals : list goval) 
         (bt : bytes) (v0 : goval) (name : bytes),
       bfam d (TStruct tn fs) ->
       (d <= 64)%nat ->
       vals <> [] ->
       Forall (fun v : goval => inhabits (TStruct tn fs) v /\ vals_ok v) vals ->
       Forall (fun v : goval => inhabits (TStruct tn fs) v /\ gtext_ok ftext v) vals ->
       tn = [] \/ unsnake_eq tn bt = true ->
       let bl := map (fun v : goval => tree_of (TStruct tn fs) v bt) vals in
       word_ok bt ->
       Forall (lex_ok ftext) bl ->
       csizes bl + 1 < 2 ^ 64 ->
       let src := render (tokens_of_progs ftext bt bl) in
       map strip (fst (lex [src])) = map strip (tokens_of_progs ftext bt bl) /\
       (let pr := parse_whole name src in
        pr_ok pr = true /\
        pr_oof pr = false /\
        pr_panic pr = false /\
        (let rr := execute (pr_prog pr) false false in
         limit_res (rr_res rr) \/
         (exists bl' : list value,
            rr_res rr = VOk /\
            rr_binding rr = BSlice bl' /\
            print_lines (rr_out rr) = [] /\
            rr_warn rr = [] /\ bind (TgtPtr (TSlice (TStruct tn fs)) v0) (BdSlice bl') = BOk (GPtrTo (GSlice vals))))).
Proof. first [exact LexWrite.C05_text_roundtrip_slice | apply LexWrite.C05_text_roundtrip_slice]. Qed.
Print Assumptions C05_text_roundtrip_slice.

(* non-vacuity: an ordinary member of the family and a value of it *)
Example C05_example_holds : fam 2 c05_type /\ inhabits c05_type c05_val.
Proof. split; [exact c05_type_fam | exact c05_val_inhabits]. Qed.
