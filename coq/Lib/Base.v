(* Base.v: bytes, byte strings, decimal/hex printing, small list helpers.
   No proofs here beyond trivial ones; part of the executable model. *)
From Coq Require Export Ascii String.
From Coq Require Export List NArith ZArith Bool.
Export ListNotations.

Definition byte := N.
Definition bytes := list N.

(* Coq string literal -> bytes (used for message fragments and keywords) *)
Fixpoint bs (s : string) : bytes :=
  match s with
  | EmptyString => []
  | String c r => N_of_ascii c :: bs r
  end.

Arguments bs s%string.

Fixpoint bytes_eqb (a b : bytes) : bool :=
  match a, b with
  | [], [] => true
  | x :: a', y :: b' => N.eqb x y && bytes_eqb a' b'
  | _, _ => false
  end.

(* bytewise lexicographic order, as Go's string < *)
Fixpoint bytes_ltb (a b : bytes) : bool :=
  match a, b with
  | [], [] => false
  | [], _ :: _ => true
  | _ :: _, [] => false
  | x :: a', y :: b' => if N.ltb x y then true else if N.ltb y x then false else bytes_ltb a' b'
  end.

Definition nlen {A} (l : list A) : N := N.of_nat (length l).

(* list reversal in linear time (the standard library's rev is quadratic); frev_eq in Proofs *)
Definition frev {A} (l : list A) : list A := rev_append l [].
Lemma frev_eq {A} (l : list A) : frev l = rev l.
Proof. unfold frev. symmetry. apply rev_alt. Qed.

(* take k elements, None if not that many (where Go would index out of range) *)
Fixpoint take {A} (k : nat) (l : list A) : option (list A) :=
  match k with
  | O => Some []
  | S k' => match l with
            | [] => None
            | x :: r => match take k' r with Some t => Some (x :: t) | None => None end
            end
  end.

Fixpoint nth_opt {A} (l : list A) (i : nat) : option A :=
  match l, i with
  | [], _ => None
  | x :: _, O => Some x
  | _ :: r, S i' => nth_opt r i'
  end.

Fixpoint set_nth {A} (l : list A) (i : nat) (v : A) : list A :=
  match l, i with
  | [], _ => []
  | _ :: r, O => v :: r
  | x :: r, S i' => x :: set_nth r i' v
  end.

(* decimal printing of N, on fuel (number of digits never exceeds the bit size) *)
Fixpoint dec_digits (fuel : nat) (n : N) (acc : bytes) : bytes :=
  match fuel with
  | O => acc
  | S f => let d := (48 + n mod 10)%N in
           if (n <? 10)%N then d :: acc else dec_digits f (n / 10)%N (d :: acc)
  end.
Definition dec_of_N (n : N) : bytes := dec_digits (S (N.to_nat (N.size n))) n [].
Definition dec_of_Z (z : Z) : bytes :=
  match z with
  | Z0 => [48%N]
  | Zpos p => dec_of_N (Npos p)
  | Zneg p => 45%N :: dec_of_N (Npos p)
  end.

Definition hex_digit (d : N) : N := if (d <? 10)%N then (48 + d)%N else (87 + d)%N.
Definition hex_of_byte (b : N) : bytes := [hex_digit (b / 16)%N; hex_digit (b mod 16)%N].
Definition hex_of_bytes (l : bytes) : bytes := flat_map hex_of_byte l.

(* parse decimal, hex *)
Definition is_digit (c : N) : bool := ((48 <=? c) && (c <=? 57))%N.
Fixpoint parse_dec_acc (l : bytes) (acc : N) : N * bytes :=
  match l with
  | c :: r => if is_digit c then parse_dec_acc r (acc * 10 + (c - 48))%N else (acc, l)
  | [] => (acc, [])
  end.

Definition join (sep : bytes) (ls : list bytes) : bytes :=
  match ls with
  | [] => []
  | x :: r => x ++ flat_map (fun y => sep ++ y) r
  end.

Definition tab : N := 9%N.
Definition nl : N := 10%N.

(* Case framing: a case is a sequence of netstring-like fields "len:bytes" *)
Fixpoint fields_fuel (fuel : nat) (l : bytes) : list bytes :=
  match fuel with
  | O => []
  | S f =>
    match l with
    | [] => []
    | _ => let '(n, r) := parse_dec_acc l 0%N in
           match r with
           | 58%N :: r' => let k := N.to_nat n in firstn k r' :: fields_fuel f (skipn k r')
           | _ => []
           end
    end
  end.
Definition fields (l : bytes) : list bytes := fields_fuel (S (length l)) l.

Definition num_of (l : bytes) : N := fst (parse_dec_acc l 0%N).
Definition znum_of (l : bytes) : Z :=
  match l with
  | 45%N :: r => Z.opp (Z.of_N (num_of r))
  | _ => Z.of_N (num_of l)
  end.

Fixpoint repeat_bytes (fuel : nat) (s : bytes) : bytes :=
  match fuel with O => [] | S f => s ++ repeat_bytes f s end.

(* split off k elements (k in N, so that hostile lengths cost nothing) *)
Fixpoint takeN {A} (l : list A) (k : N) : option (list A * list A) :=
  if (k =? 0)%N then Some ([], l)
  else match l with
       | [] => None
       | x :: r => match takeN r (k - 1)%N with
                   | Some (t, rest) => Some (x :: t, rest)
                   | None => None
                   end
       end.
(* as many as there are, at most k *)
Fixpoint uptoN {A} (l : list A) (k : N) : list A * list A :=
  if (k =? 0)%N then ([], l)
  else match l with
       | [] => ([], [])
       | x :: r => let '(t, rest) := uptoN r (k - 1)%N in (x :: t, rest)
       end.

Definition is_lit (w : bytes) (s : string) : bool := bytes_eqb w (bs s).
Arguments is_lit w s%string.
