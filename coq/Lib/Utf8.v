(* Utf8.v: unicode/utf8 DecodeRuneInString and FullRuneInString, modelled from the Go
   standard library (tables first[] / acceptRanges[]). Validated by the lexer suites. *)
From BCL Require Export Lib.Base.
Open Scope N_scope.

Definition rune_error : N := 65533.   (* U+FFFD *)

Definition in_range (lo hi b : N) : bool := (lo <=? b) && (b <=? hi).
Definition is_cont (b : N) : bool := in_range 128 191 b.

(* size announced by the lead byte and the accepted range of the second byte;
   0 = ASCII, 1 = invalid lead byte *)
Definition lead_info (b0 : N) : N * (N * N) :=
  if b0 <? 128 then (0, (0, 0))
  else if b0 <? 194 then (1, (0, 0))
  else if b0 <? 224 then (2, (128, 191))
  else if b0 =? 224 then (3, (160, 191))
  else if b0 =? 237 then (3, (128, 159))
  else if b0 <? 240 then (3, (128, 191))
  else if b0 =? 240 then (4, (144, 191))
  else if b0 <? 244 then (4, (128, 191))
  else if b0 =? 244 then (4, (128, 143))
  else (1, (0, 0)).

(* (rune, width); width 0 only for the empty input *)
Definition decode_rune (s : bytes) : N * nat :=
  match s with
  | [] => (rune_error, 0%nat)
  | b0 :: r =>
    let '(sz, (lo, hi)) := lead_info b0 in
    if sz =? 0 then (b0, 1%nat)
    else if sz =? 1 then (rune_error, 1%nat)
    else match r with
         | b1 :: r1 =>
           if negb (in_range lo hi b1) then (rune_error, 1%nat)
           else if sz =? 2 then ((b0 mod 32) * 64 + (b1 mod 64), 2%nat)
           else match r1 with
                | b2 :: r2 =>
                  if negb (is_cont b2) then (rune_error, 1%nat)
                  else if sz =? 3 then ((b0 mod 16) * 4096 + (b1 mod 64) * 64 + (b2 mod 64), 3%nat)
                  else match r2 with
                       | b3 :: _ =>
                         if negb (is_cont b3) then (rune_error, 1%nat)
                         else ((b0 mod 8) * 262144 + (b1 mod 64) * 4096 + (b2 mod 64) * 64 + (b3 mod 64), 4%nat)
                       | [] => (rune_error, 1%nat)
                       end
                | [] => (rune_error, 1%nat)
                end
         | [] => (rune_error, 1%nat)
         end
  end.

(* FullRuneInString: false only for a proper, so far valid, prefix of a multi-byte rune *)
Definition full_rune (s : bytes) : bool :=
  match s with
  | [] => false
  | b0 :: r =>
    let '(sz, (lo, hi)) := lead_info b0 in
    if sz <=? 1 then true
    else match r with
         | [] => false
         | b1 :: r1 =>
           if negb (in_range lo hi b1) then true
           else if sz =? 2 then true
           else match r1 with
                | [] => false
                | b2 :: r2 =>
                  if negb (is_cont b2) then true
                  else if sz =? 3 then true
                  else match r2 with [] => false | _ :: _ => true end
                end
         end
  end.

(* utf8.AppendRune for a valid scalar value *)
Definition encode_rune (r : N) : bytes :=
  if r <? 128 then [r]
  else if r <? 2048 then [192 + r / 64; 128 + r mod 64]
  else if r <? 65536 then [224 + r / 4096; 128 + (r / 64) mod 64; 128 + r mod 64]
  else [240 + r / 262144; 128 + (r / 4096) mod 64; 128 + (r / 64) mod 64; 128 + r mod 64].
