(* Float.v: executable model of Go float64 as used by bcl: IEEE-754 binary64 arithmetic from
   Coq's SpecFloat (prec 53, emax 1024), literal conversion (strconv.ParseFloat: correctly rounded,
   round-to-nearest-even, via an exact rational), and Go's shortest decimal printing ('%v' and
   FormatFloat 'f' -1).  These mirror the Go standard library, which is outside /repo: modelled
   and validated by correspondence (4350-case probe against Go, and every float the suites print),
   not verified. *)
From Coq Require Import ZArith List Bool Floats.SpecFloat.
Import ListNotations.
Open Scope Z_scope.

Definition prec := 53. Definition emax := 1024.

(* ---------- decimal -> float64 (strconv.ParseFloat on digits*10^E), round to nearest even ---------- *)
Definition of_decimal (M E : Z) : spec_float :=
  if M =? 0 then S754_zero false else
  if 0 <=? E then binary_normalize prec emax (M * 10 ^ E) 0 false
  else let d := 10 ^ (- E) in
       let s := Z.max 0 (Z.log2 d - Z.log2 M + 58) in
       let n := Z.shiftl M s in
       let q := n / d in let r := n mod d in
       binary_normalize prec emax (2 * q + (if r =? 0 then 0 else 1)) (- s - 1) false.

(* ---------- float64 -> bits ---------- *)
Definition bits_of (f : spec_float) : Z :=
  match f with
  | S754_zero s => if s then 2 ^ 63 else 0
  | S754_infinity s => (if s then 2 ^ 63 else 0) + 2047 * 2 ^ 52
  | S754_nan => 2047 * 2 ^ 52 + 2 ^ 51
  | S754_finite s m e =>
      let sb := if s then 2 ^ 63 else 0 in
      if Z.pos m <? 2 ^ 52 then sb + Z.pos m                      (* subnormal, e = -1074 *)
      else sb + (e + 1075) * 2 ^ 52 + (Z.pos m - 2 ^ 52)
  end.
Definition of_bits (b : Z) : spec_float :=
  let s := 2 ^ 63 <=? b in
  let r := b mod 2 ^ 63 in
  let ex := r / 2 ^ 52 in let mt := r mod 2 ^ 52 in
  if ex =? 2047 then (if mt =? 0 then S754_infinity s else S754_nan)
  else if ex =? 0 then (match mt with Zpos p => S754_finite s p (-1074) | _ => S754_zero s end)
  else match mt + 2 ^ 52 with Zpos p => S754_finite s p (ex - 1075) | _ => S754_nan end.

(* ---------- shortest decimal digits (strconv 'shortest') ---------- *)
(* positive finite f = m * 2^e. Work with rationals num/den. *)
Definition pow2 (e : Z) := 2 ^ e.
(* compare a/b with c/d, all positive *)
Definition qcmp (a b c d : Z) : comparison := (a * d ?= c * b).

(* decimal exponent X with 10^(X-1) <= num/den < 10^X ; search from an estimate *)
Fixpoint adj_up (fuel : nat) (num den X : Z) : Z :=       (* while num/den >= 10^X : X++ *)
  match fuel with O => X | S f =>
    let ge := if 0 <=? X then (den * 10 ^ X <=? num) else (den <=? num * 10 ^ (- X)) in
    if ge then adj_up f num den (X + 1) else X end.
Fixpoint adj_dn (fuel : nat) (num den X : Z) : Z :=       (* while num/den < 10^(X-1) : X-- *)
  match fuel with O => X | S f =>
    let Y := X - 1 in
    let lt := if 0 <=? Y then (num <? den * 10 ^ Y) else (num * 10 ^ (- Y) <? den) in
    if lt then adj_dn f num den (X - 1) else X end.
Definition dec_exp (num den : Z) : Z :=
  let est := ((Z.log2 num - Z.log2 den) * 30103) / 100000 in
  adj_dn 8 num den (adj_up 8 num den est).

(* floor (num/den / 10^k) *)
Definition scaled_floor (num den k : Z) : Z :=
  if 0 <=? k then num / (den * 10 ^ k) else (num * 10 ^ (- k)) / den.
(* compare D * 10^k with a/b *)
Definition cmp_dec (D k a b : Z) : comparison :=
  if 0 <=? k then (D * 10 ^ k * b ?= a) else (D * b ?= a * 10 ^ (- k)).

(* result: digits D (p digits, no trailing-zero trimming yet) and X = decimal point position (0.D * 10^X) *)
Fixpoint shortest_loop (fuel : nat) (p : Z) (num den lo_n lo_d hi_n hi_d : Z) (incl : bool) (X : Z) : Z * Z :=
  match fuel with
  | O => (0, 0)
  | S f =>
    let k := X - p in
    let Dn := scaled_floor num den k in
    let Up := Dn + 1 in
    (* in-interval tests *)
    let ok_lo (D : Z) := match cmp_dec D k lo_n lo_d with Gt => true | Eq => incl | Lt => false end in
    let ok_hi (D : Z) := match cmp_dec D k hi_n hi_d with Lt => true | Eq => incl | Gt => false end in
    let exact := match cmp_dec Dn k num den with Eq => true | _ => false end in
    let okdown := ok_lo Dn && ok_hi Dn in
    let okup := ok_lo Up && ok_hi Up in
    if exact then (Dn, X)
    else if okdown || okup then
      (* distance comparison: 2*f vs (Dn+Up)*10^k *)
      let nearer_up := match cmp_dec (2 * Dn + 1) k (2 * num) den with Lt => true | Eq => Z.odd Dn | Gt => false end in
      let pick_up := if okdown && okup then nearer_up else okup in
      if pick_up then (if Up =? 10 ^ p then (10 ^ (p - 1), X + 1) else (Up, X)) else (Dn, X)
    else shortest_loop f (p + 1) num den lo_n lo_d hi_n hi_d incl X
  end.

Fixpoint strip_zeros (fuel : nat) (D : Z) : Z :=
  match fuel with O => D | S f => if (D mod 10 =? 0) && negb (D =? 0) then strip_zeros f (D / 10) else D end.

Definition shortest (m : positive) (e : Z) : Z * Z :=     (* digits (trailing zeros stripped), X *)
  let M := Z.pos m in
  (* scale by 4 to express half-gaps as integers: f = 4M * 2^(e-2) *)
  let e2 := e - 2 in
  let F := 4 * M in
  let lowgap := if (M =? 2 ^ 52) && negb (e =? -1074) then 1 else 2 in
  let lo := F - lowgap in let hi := F + 2 in
  let sc (v : Z) : Z * Z := if 0 <=? e2 then (v * 2 ^ e2, 1) else (v, 2 ^ (- e2)) in
  let '(num, den) := sc F in
  let '(lo_n, lo_d) := sc lo in let '(hi_n, hi_d) := sc hi in
  let X := dec_exp num den in
  let '(D, X') := shortest_loop 20 1 num den lo_n lo_d hi_n hi_d (Z.even M) X in
  (strip_zeros 20 D, X').

(* ---------- decimal digit strings ---------- *)
Fixpoint digits_rev (fuel : nat) (n : Z) : list Z :=
  match fuel with O => [] | S f => if n <? 10 then [n] else (n mod 10) :: digits_rev f (n / 10) end.
Definition digits (n : Z) : list Z := rev (digits_rev 400 n).   (* 400 > any digit count used here *)
Fixpoint zeros (n : nat) : list Z := match n with O => [] | S k => 0 :: zeros k end.

(* output alphabet: 0..9 digits, 10 '.', 11 'e', 12 '+', 13 '-', 14 "Inf", 15 "NaN" *)
Definition fmt_e (neg : bool) (ds : list Z) (X : Z) : list Z :=
  let ex := X - 1 in
  let mant := match ds with [] => [0] | d :: [] => [d] | d :: r => d :: 10 :: r end in
  let exd := digits (Z.abs ex) in
  let exd := match exd with [d] => [0; d] | l => l end in
  (if neg then [13] else []) ++ mant ++ [11; if ex <? 0 then 13 else 12] ++ exd.
Definition fmt_f (neg : bool) (ds : list Z) (X : Z) : list Z :=
  let nd := Z.of_nat (length ds) in
  (if neg then [13] else []) ++
  (if X <=? 0 then [0; 10] ++ zeros (Z.to_nat (- X)) ++ ds
   else if nd <=? X then ds ++ zeros (Z.to_nat (X - nd))
   else firstn (Z.to_nat X) ds ++ [10] ++ skipn (Z.to_nat X) ds).

(* %v : 'g' with shortest precision, exponent threshold 6 (21 is JSON's, not fmt's) *)
Definition fmt_v (f : spec_float) : list Z :=
  match f with
  | S754_zero s => (if s then [13] else []) ++ [0]
  | S754_infinity s => [if s then 13 else 12; 14]
  | S754_nan => [15]
  | S754_finite s m e =>
      let '(D, X) := shortest m e in
      let ds := digits D in
      if (X - 1 <? -4) || (6 <=? X - 1) then fmt_e s ds X else fmt_f s ds X
  end.
(* strconv.FormatFloat(x, 'f', -1, 64) *)
Definition fmt_fm1 (f : spec_float) : list Z :=
  match f with
  | S754_zero s => (if s then [13] else []) ++ [0]
  | S754_infinity s => [if s then 13 else 12; 14]
  | S754_nan => [15]
  | S754_finite s m e => let '(D, X) := shortest m e in fmt_f s (digits D) X
  end.


(* ---------- interface used by the model: floats are carried as bit patterns (N) ---------- *)
Definition fbits := N.
Definition sf (b : N) : spec_float := of_bits (Z.of_N b).
(* bits_of is below 2^64 on every float the operations produce; the mod makes that bound a
   syntactic fact for the encoder proofs *)
Definition fb (f : spec_float) : N := Z.to_N (bits_of f mod 2 ^ 64).
Definition f_of_int (z : Z) : N := fb (binary_normalize prec emax z 0 false).
Definition f_add (a b : N) : N := fb (SFadd prec emax (sf a) (sf b)).
Definition f_sub (a b : N) : N := fb (SFsub prec emax (sf a) (sf b)).
Definition f_mul (a b : N) : N := fb (SFmul prec emax (sf a) (sf b)).
Definition f_div (a b : N) : N := fb (SFdiv prec emax (sf a) (sf b)).
Definition f_neg (a : N) : N := fb (SFopp (sf a)).
Definition f_eq (a b : N) : bool := match SFcompare (sf a) (sf b) with Some Eq => true | _ => false end.
Definition f_lt (a b : N) : bool := match SFcompare (sf a) (sf b) with Some Lt => true | _ => false end.
Definition f_gt (a b : N) : bool := match SFcompare (sf a) (sf b) with Some Gt => true | _ => false end.
Definition f_is_zero (a : N) : bool := match sf a with S754_zero _ => true | _ => false end.
Definition f_is_nan (a : N) : bool := match sf a with S754_nan => true | _ => false end.
Definition f_is_inf (a : N) : bool := match sf a with S754_infinity _ => true | _ => false end.

(* output alphabet -> ASCII *)
Definition sym (d : Z) : list N :=
  if d <? 10 then [Z.to_N (48 + d)]
  else if d =? 10 then [46%N] else if d =? 11 then [101%N] else if d =? 12 then [43%N]
  else if d =? 13 then [45%N] else if d =? 14 then [73; 110; 102]%N else [78; 97; 78]%N.
Definition f_fmt_v (a : N) : list N := flat_map sym (fmt_v (sf a)).
Definition f_fmt_f (a : N) : list N := flat_map sym (fmt_fm1 (sf a)).

(* literal M * 10^E with nd = number of decimal digits of M; None = out of range (ErrRange) *)
Definition f_of_decimal (M E nd : Z) : option N :=
  if M =? 0 then Some 0%N
  else if 310 <? nd + E then None
  else if nd + E <? -330 then Some 0%N
  else let f := of_decimal M E in
       match f with S754_infinity _ => None | _ => Some (fb f) end.
