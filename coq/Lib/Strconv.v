(* Strconv.v: the parts of Go's strconv that bcl calls: ParseInt(s, 0, 0) on the token texts the
   lexer produces, ParseFloat(s, 64) likewise, Unquote on double-quoted tokens, Itoa.
   Modelled from the Go standard library source; validated by correspondence. *)
From BCL Require Export Lib.Utf8 Lib.Float.
Open Scope N_scope.

Inductive lit_err := LSyntax | LRange.

Definition digit_val (c : N) : option N :=
  if (48 <=? c) && (c <=? 57) then Some (c - 48)
  else if (97 <=? c) && (c <=? 102) then Some (c - 87)
  else if (65 <=? c) && (c <=? 70) then Some (c - 55)
  else None.

Fixpoint digits_val (base : N) (l : bytes) (acc : N) : option N :=
  match l with
  | [] => Some acc
  | c :: r => match digit_val c with
              | Some d => if d <? base then digits_val base r (acc * base + d) else None
              | None => None
              end
  end.

(* ParseInt(s, 0, 0) for s = digits | 0[xX]hexdigits* : prefix 0x -> 16, leading 0 -> 8, else 10 *)
Definition parse_int (s : bytes) : lit_err + Z :=
  let go base body :=
    match body with
    | [] => inl LSyntax
    | _ => match digits_val base body 0 with
           | None => inl LSyntax
           | Some n => if n <? 2^63 then inr (Z.of_N n) else inl LRange
           end
    end in
  match s with
  | 48 :: 120 :: r => go 16 r
  | 48 :: 88 :: r => go 16 r
  | 48 :: (_ :: _) as r => go 8 r
  | _ => go 10 s
  end.

(* ParseFloat on  D+ [. D+] [(e|E) [+-] D+]  *)
Fixpoint take_digits (l : bytes) (acc : N) (n : N) : N * N * bytes :=
  match l with
  | c :: r => if is_digit c then take_digits r (acc * 10 + (c - 48)) (n + 1) else (acc, n, l)
  | [] => (acc, n, [])
  end.
Definition parse_float (s : bytes) : lit_err + N :=
  let '(ip, n1, r1) := take_digits s 0 0 in
  let '(m, nfrac, r2) :=
    match r1 with
    | 46 :: r => let '(m, n2, r') := take_digits r ip 0 in (m, n2, r')
    | _ => (ip, 0, r1)
    end in
  let '(ex, r3) :=
    match r2 with
    | c :: r =>
      if (c =? 101) || (c =? 69) then
        match r with
        | 45 :: r' => let '(e, _, r'') := take_digits r' 0 0 in ((- Z.of_N e)%Z, r'')
        | 43 :: r' => let '(e, _, r'') := take_digits r' 0 0 in (Z.of_N e, r'')
        | _ => let '(e, _, r'') := take_digits r 0 0 in (Z.of_N e, r'')
        end
      else (0%Z, r2)
    | [] => (0%Z, [])
    end in
  match r3 with
  | _ :: _ => inl LSyntax
  | [] =>
    let nd := Z.of_N (N.of_nat (length (dec_of_N m))) in
    match f_of_decimal (Z.of_N m) (ex - Z.of_N nfrac)%Z nd with
    | Some b => inr b
    | None => inl LRange
    end
  end.

(* Unquote of a double-quoted token  "..."  *)
Definition oct_val (c : N) : option N := if (48 <=? c) && (c <=? 55) then Some (c - 48) else None.
Fixpoint hexn (k : nat) (l : bytes) (acc : N) : option (N * bytes) :=
  match k with
  | O => Some (acc, l)
  | S k' => match l with
            | c :: r => match digit_val c with Some d => hexn k' r (acc * 16 + d) | None => None end
            | [] => None
            end
  end.
Definition valid_rune (v : N) : bool := (v <? 55296) || ((57343 <? v) && (v <=? 1114111)).

(* body = text between the quotes; fuel = its length *)
(* body = text between the quotes; fuel = its length + 1; acc is reversed *)
Fixpoint unquote_body (fuel : nat) (l : bytes) (acc : bytes) : option bytes :=
  match fuel with
  | O => match l with [] => Some (frev acc) | _ => None end
  | S f =>
    match l with
    | [] => Some (frev acc)
    | 10 :: _ => None
    | 34 :: _ => None                       (* unescaped quote inside: cannot come from the lexer *)
    | 92 :: r =>
      match r with
      | [] => None
      | e :: r' =>
        let simple (b : N) := unquote_body f r' (b :: acc) in
        if e =? 97 then simple 7 else if e =? 98 then simple 8 else if e =? 102 then simple 12
        else if e =? 110 then simple 10 else if e =? 114 then simple 13 else if e =? 116 then simple 9
        else if e =? 118 then simple 11 else if e =? 92 then simple 92 else if e =? 34 then simple 34
        else if e =? 120 then
          match hexn 2 r' 0 with Some (v, r'') => unquote_body f r'' (v :: acc) | None => None end
        else if e =? 117 then
          match hexn 4 r' 0 with
          | Some (v, r'') => if valid_rune v then unquote_body f r'' (rev_append (encode_rune v) acc) else None
          | None => None end
        else if e =? 85 then
          match hexn 8 r' 0 with
          | Some (v, r'') => if valid_rune v then unquote_body f r'' (rev_append (encode_rune v) acc) else None
          | None => None end
        else match oct_val e, r' with
             | Some d0, c1 :: c2 :: r'' =>
               match oct_val c1, oct_val c2 with
               | Some d1, Some d2 =>
                 let v := d0 * 64 + d1 * 8 + d2 in
                 if 255 <? v then None else unquote_body f r'' (v :: acc)
               | _, _ => None
               end
             | _, _ => None
             end
      end
    | c :: _ =>
      let '(rn, w) := decode_rune l in
      if c <? 128 then unquote_body f (skipn 1 l) (c :: acc)
      else if (rn =? rune_error) && (Nat.eqb w 1) then unquote_body f (skipn 1 l) (rev_append (encode_rune rune_error) acc)
      else unquote_body f (skipn w l) (rev_append (firstn w l) acc)
    end
  end.

Definition unquote (tokval : bytes) : option bytes :=
  match tokval with
  | 34 :: r =>
    match frev r with
    | 34 :: body_rev => let body := frev body_rev in unquote_body (S (length body)) body []
    | _ => None
    end
  | _ => None
  end.
