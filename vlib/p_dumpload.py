"""C09 (dump/load round trip), C13 (truncated bytecode), C14 (format 1.1 stability)."""
import json, os, random, struct
from .core import F, casehash, VERIF
from .genprog import Gen, str_lit

BOUND_LENS = [0, 1, 93, 94, 95, 96, 239, 240, 241, 242, 2287, 2288, 4094, 4095, 4096, 4097, 8192]
BIG_LENS = [67823, 67824, 70000]


def parse_parts(s):
    d = {}
    for kv in s.split(" "):
        k, _, v = kv.partition("=")
        d[k] = v
    consts = []
    for c in (d["consts"].split(",") if d["consts"] else []):
        if c == "n":
            consts.append(b"n")
        elif c in ("b0", "b1"):
            consts.append(c.encode())
        elif c[0] in "if":
            consts.append(c.encode())
        elif c[0] == "s":
            consts.append(b"s" + bytes.fromhex(c[1:]))
        else:
            raise ValueError("const " + c)
    nums = lambda x: [n.encode() for n in x.split(",")] if x else []
    return F(bytes.fromhex(d["name"]), bytes.fromhex(d["code"]), F(*consts), F(*nums(d["pos"])), F(*nums(d["lfs"])))


def chunks_of(data, sizes):
    """what harness chunkReader hands out (before bufio caps it at its free space)"""
    if not sizes:
        return [data] if data else []
    out, i, k = [], 0, 0
    while i < len(data):
        n = sizes[k % len(sizes)]
        k += 1
        if n == 0:
            continue
        out.append(data[i:i + n])
        i += n
    return out


def special_programs(rng, thorough):
    """programs aimed at the case splits of the encoding: varint size classes, 4096 buffers"""
    progs = []
    lens = BOUND_LENS + (BIG_LENS if thorough else [67824])
    for L in lens:
        body = bytes(rng.choice(b"abcdefghijklmnopqrstuvwxyz0123456789 ") for _ in range(L))
        progs.append((b'var s = "' + body + b'"\nprint s\n', "str%d" % L))
    for L in [1, 95, 240, 241, 2288, 4097]:
        name = b"f" + bytes(rng.choice(b"abcdefghij") for _ in range(L - 1))
        progs.append((b"def b { " + name + b" = 1\n print " + name + b" }\n", "ident%d" % L))
    # positions beyond 240 / 2287 / 67823: many lines
    for nlines in [30, 300] + ([9000] if thorough else []):
        src = b"".join(b"var v%d = %d\n" % (i, i) for i in range(min(nlines, 1000)))
        src += b"".join(b"print %d\n" % i for i in range(max(0, nlines - 1000)))
        src += b"print v1 + 1.5\n"
        progs.append((src, "lines%d" % nlines))
    # every constant kind, negative via NEG, floats of many classes
    floats = ["0.0", "1.5", "0.1", "1e308", "1.7976931348623157e308", "5e-324", "2.2250738585072014e-308",
              "4.9406564584124654e-324", "123456789.125", "1e22", "1e23", "9007199254740993.0", "0.30000000000000004"]
    progs.append((b"".join(b"print %s\n" % f.encode() for f in floats), "floats"))
    progs.append((b"print 9223372036854775807\nprint 0x7fffffffffffffff\nprint 2\nprint 240\nprint 241\n"
                  b"print 2287\nprint 2288\nprint 67823\nprint 67824\nprint 16777215\nprint 16777216\n"
                  b"print 4294967295\nprint 4294967296\nprint 1099511627776\nprint 281474976710656\n"
                  b"print 72057594037927936\n", "ints"))
    progs.append((b'def a "x" { def b "y" { z = nil; t = true; f = false } }\nbind a -> struct\nbind a:all -> slice\n', "kinds"))
    progs.append((b"", "empty"))
    progs.append((b"\n", "nl")); progs.append((b"# only a comment", "comment")); progs.append((b"  ", "blank"))
    # more than 64 KiB of code in one program (the 16-bit limit is per jump, not per program)
    progs.append((b"eval true\n" * 33000 + b"print 1/0\n", "code66k"))
    # the LAST byte(s) of the dump are the last line-table entry: sweep it over the varint size classes, so that a
    # reader's "are enough bytes left?" logic is exercised exactly at the end of the file
    for k in list(range(236, 246)) + list(range(2283, 2293)) + ([67820, 67823, 67824, 67826] if thorough else []):
        progs.append((b"#" + b"x" * (k - 1) + b"\n", "lastlf%d" % k))
        progs.append((b"print 1 #" + b"y" * (k - 9) + b"\nprint 2", "lastlf%db" % k))
    # string constants around the scratch buffer: every length 90..100, and a grown buffer followed by slightly longer ones
    for L in range(88, 102):
        progs.append((b'print "' + b"s" * L + b'"\n', "strs%d" % L))
    for base in (300, 1000):
        for d in range(0, 12):
            progs.append((b'var a = "' + b"a" * base + b'"\nvar b = "' + b"b" * (base + d) + b'"\n', "grow%d+%d" % (base, d)))
    # runtime error and warning positions survive
    progs.append((b"var a = 1\n\n\nprint a / 0\n", "rterr"))
    progs.append((b"def t {}\nbind t -> struct\n\nbind t:first -> slice\nprint 1\n", "warn"))
    return progs


def names_for(rng, i):
    L = [0, 5, 5, 5, 240, 241, 4096, 4097, 10000][i % 9]
    return "".join(rng.choice("abcdefgh/._-") for _ in range(L))


PARTITIONS_Q = [[], [1], [2], [3, 5], [4095], [4096], [4097], [7, 0, 1]]


def gen_cases(ctx, n_random):
    rng = random.Random(ctx.seed * 7919 + 9)
    cases = []
    for src, tag in special_programs(rng, ctx.thorough):
        cases.append(dict(tag=tag, src=src))
    g = Gen(rng, max_depth=3)
    from . import interp as _interp
    for src in _interp.drop_excluded(ctx, [g.program() for i in range(n_random)]):
        cases.append(dict(tag="rand", src=src))
    out = []
    for i, c in enumerate(cases):
        parts = list(PARTITIONS_Q)
        parts.append([rng.randint(1, 9) for _ in range(rng.randint(1, 4))])
        parts.append([rng.randint(1, 5000)])
        if len(c["src"]) > 20000:     # keep one-byte reads of very large dumps out of the quick tier
            parts = [p for p in parts if p not in ([1], [2])] if not ctx.thorough else parts
        out.append(dict(id="%s-%d" % (c["tag"], i), src_hex=c["src"].hex(), name=names_for(rng, i), partitions=parts))
    return out


def exec_key(e):
    return json.dumps(e, sort_keys=True)


def check_C09(ctx):
    ctx.build(["Proofs/TieFormat.vo", "Properties/C09.vo"], "Properties/C09.v")
    cases = gen_cases(ctx, ctx.n(60, 600))
    res, missing, err = ctx.probe("dumpload", cases, timeout=3000)
    if missing:
        ctx.violation("harness produced no observation (crash of the probe process?)", dict(ids=missing[:5], log=err),
                      kind="input", key="probe-crash")
    items, meta = [], {}
    accepted = 0
    for c in cases:
        r = res.get(c["id"])
        if not r or r.get("parse") != "ok":
            continue
        accepted += 1
        src = bytes.fromhex(c["src_hex"])
        case = dict(src_hex=c["src_hex"], name=c["name"])
        if r.get("dump_class") != "ok" or "dump" not in r:
            ctx.violation("Dump of an accepted program failed: %s %s" % (r.get("dump_class"), r.get("dump_err", "")),
                          case, impl=r.get("dump_err"), theorem="C09_dump_total", key="dump-fails")
            continue
        dump = bytes.fromhex(r["dump"])
        items.append(("dump", c["id"] + "/dump", parse_parts(r["parts"])))
        for k, l in enumerate(r["loads"]):
            ctx.count(1, casehash(src, c["name"], json.dumps(l["sizes"])))
            pc = dict(case, sizes=l["sizes"])
            if l["class"] != "ok":
                ctx.violation("LoadProg of a fresh dump: %s %s" % (l["class"], l["label"]), pc, impl=l,
                              theorem="C09_roundtrip", key="load-fails:" + l["class"])
                continue
            if l["parts"] != r["parts"]:
                ctx.violation("loaded program differs from the dumped one", pc, impl=l["parts"], model=r["parts"],
                              theorem="C09_roundtrip", key="parts-differ")
            if not l["redump_same"]:
                ctx.violation("dump of the loaded program differs from the first dump", pc, theorem="C09_redump",
                              key="redump-differs")
            if not l["disasm_same"]:
                ctx.violation("disassembly differs after load", pc, theorem="C09_roundtrip", key="disasm-differs")
            if not l["exec_same"]:
                ctx.violation("execution differs after load", pc, impl=l.get("exec"), model=r["exec"],
                              theorem="C09_roundtrip", key="exec-differs")
            # model: load the very chunks the reader handed out (only moderate sizes for 1-byte reads)
            if len(dump) * (1 if l["sizes"] in ([], [4096], [4095], [4097]) else 8) < 400000:
                items.append(("load", "%s/load%d" % (c["id"], k), F(*chunks_of(dump, l["sizes"]))))
        meta[c["id"]] = r
    mres = ctx.model(items, timeout=3000)
    ndis = 0
    for suite, iid, payload in items:
        cid, _, what = iid.rpartition("/")
        r = meta[cid]
        got = mres.get(iid)
        if what == "dump":
            want = "ok " + r["dump"]
        else:
            want = "ok " + r["parts"]
        ctx.count(1)
        if got != want:
            ndis += 1
            if ndis <= 3:
                ctx.broken.append(("correspondence", "suite dumpload: model %s vs implementation" % suite,
                                   "case %s: model=%s impl=%s" % (iid, (got or "")[:200], want[:200])))
    ctx.suite_stats["dumpload"] = dict(cases=len(cases), accepted=accepted, model_items=len(items), disagreements=ndis,
                                       partitions=len(PARTITIONS_Q) + 2)
    ctx.traces = len(items) - ndis
    for c in cases[:3]:
        ctx.sample(dict(src=bytes.fromhex(c["src_hex"])[:120].decode("latin1"), name_len=len(c["name"]),
                        partitions=c["partitions"][:4]))
    return ctx.finish("LoadProg/Dump are exercised through real bufio readers with scripted partitions; the model of "
                      "bufio is validated by the same runs")


def check_C13(ctx):
    ctx.build(["Proofs/TieFormat.vo", "Properties/C13.vo"], "Properties/C13.v")
    rng = random.Random(ctx.seed * 104729 + 13)
    g = Gen(rng, max_depth=3)
    cases = []
    specials = special_programs(rng, False)
    for i, (src, tag) in enumerate(specials):
        if len(src) > 3000 and not ctx.thorough:
            continue
        if len(src) > 100000:
            continue              # every cut point of a 66 KB dump twice over is left to the string case of similar size
        cases.append(dict(id="%s-%d" % (tag, i), src_hex=src.hex(), name="nm", sizes=[]))
    for i in range(ctx.n(25, 300)):
        cases.append(dict(id="rand-%d" % i, src_hex=g.program().hex(), name=names_for(rng, i)[:300],
                          sizes=rng.choice([[], [1], [3, 5], [4096]])))
    res, missing, err = ctx.probe("truncate", cases, timeout=3000)
    if missing:
        ctx.violation("harness produced no observation (crash of the probe process?)", dict(ids=missing[:5], log=err),
                      key="probe-crash")
    items = []
    total_cuts = 0
    for c in cases:
        r = res.get(c["id"])
        if not r or r.get("parse") != "ok" or "cuts" not in r:
            continue
        dump = bytes.fromhex(r["dump"])
        if r.get("full_class") != "ok":
            ctx.violation("the complete dump does not load", dict(src_hex=c["src_hex"]), key="full-load-fails")
        for cut in r["cuts"]:
            total_cuts += 1
            ctx.count(1, casehash(dump, str(cut["cut"])))
            if cut["class"] != "err":
                ctx.violation("LoadProg on a %d-byte prefix of a %d-byte dump: %s (expected an error)" % (
                    cut["cut"], len(dump), cut["class"]),
                    dict(src_hex=c["src_hex"], dump_hex=r["dump"], cut=cut["cut"], sizes=c["sizes"]),
                    impl=cut, theorem="C13_truncated", key="prefix-" + cut["class"])
            elif "opts_class" in cut:
                ctx.violation("LoadProg with OptDisasm/OptStats/OptTrace on a %d-byte prefix of a %d-byte dump: %s %s (without the "
                              "options: error %s)" % (cut["cut"], len(dump), cut["opts_class"], cut.get("opts_label", ""), cut["label"]),
                              dict(src_hex=c["src_hex"], dump_hex=r["dump"], cut=cut["cut"], sizes=c["sizes"], options="disasm,stats,trace"),
                              impl=cut, theorem="C13_truncated", key="prefix-opts-" + cut["opts_class"])
        # model on a sample of cut points (all of them for small dumps)
        if len(dump) <= 400 or (ctx.thorough and len(dump) <= 20000):
            cuts = r["cuts"]
        else:
            # large dumps: the model on the first and last 300 cut points and a random sample in between
            k = 3000 if ctx.thorough else 60
            cuts = r["cuts"][:300] + r["cuts"][-300:] + rng.sample(r["cuts"], min(len(r["cuts"]), k)) if ctx.thorough else rng.sample(r["cuts"], min(len(r["cuts"]), k))
        for cut in cuts:
            items.append(("loadwhole", "%s/%d" % (c["id"], cut["cut"]), dump[:cut["cut"]], cut))
    # header sweep: all 2^16 magic values (thorough) or a sample, all version pairs around the valid one
    hdr_cases = []
    body = None
    for c in cases:
        r = res.get(c["id"])
        if r and r.get("parse") == "ok" and "dump" in r:
            body = bytes.fromhex(r["dump"])
            break
    if body:
        magics = range(65536) if ctx.thorough else sorted(set(
            [0xfc6c, 0xfc6d, 0xfd6c, 0x6cfc, 0, 0xffff, 0xfc00, 0x006c] + [rng.randrange(65536) for _ in range(400)]))
        for m in magics:
            hdr_cases.append(dict(id="magic-%04x" % m, data_hex=(bytes([m >> 8, m & 255]) + body[2:]).hex(), name="x"))
        for maj in range(256) if ctx.thorough else [0, 1, 2, 255]:
            for mnr in ([0, 1, 2, 255] if not ctx.thorough else range(256)):
                hdr_cases.append(dict(id="ver-%d-%d" % (maj, mnr), data_hex=(body[:2] + bytes([maj, mnr]) + body[4:]).hex(),
                                      name="x"))
        hres, hmiss, _ = ctx.probe("loadraw", hdr_cases, tag="hdr")
        for hc in hdr_cases:
            r = hres.get(hc["id"])
            if not r:
                continue
            d = bytes.fromhex(hc["data_hex"])
            valid = d[:2] == b"\xfc\x6c" and d[2] == 1 and d[3] <= 1
            ctx.count(1, hc["id"])
            if valid and r["class"] != "ok":
                ctx.violation("valid header rejected", dict(data_hex=hc["data_hex"][:64]), impl=r, key="hdr-valid-rejected")
            if not valid and r["class"] != "err":
                ctx.violation("bad magic/version not rejected: %s" % r["class"], dict(data_hex=hc["data_hex"]),
                              impl=r, theorem="C13_header", key="hdr-accepted")
            items.append(("loadwhole", "hdr/" + hc["id"], d, dict(class_=r["class"], label=r.get("label", ""))))
    mres = ctx.model([(s, i, p) for s, i, p, _ in items])
    ndis = 0
    for s, iid, payload, obs in items:
        got = mres.get(iid, "")
        cls = obs.get("class", obs.get("class_"))
        want = ("err " + obs["label"]) if cls == "err" else cls
        gotc = got if got.startswith("err ") else got.split(" ")[0]
        ctx.count(1)
        if gotc != want:
            ndis += 1
            if ndis <= 3:
                ctx.broken.append(("correspondence", "suite truncate: model load vs LoadProg",
                                   "case %s: model=%s impl=%s" % (iid, got[:120], want)))
    ctx.suite_stats["truncate"] = dict(programs=len(cases), cut_points=total_cuts, header_cases=len(hdr_cases),
                                       model_items=len(items), disagreements=ndis, exhaustive_cuts=True)
    ctx.traces = len(items) - ndis
    ctx.sample(dict(program=bytes.fromhex(cases[0]["src_hex"])[:80].decode("latin1"), cuts="every k in [0, len)"))
    ctx.sample(dict(header="magic value sweep", n=len(hdr_cases)))
    return ctx.finish("every proper prefix of every generated dump is loaded through the real LoadProg")
