"""C01 (expressions), C02 (scoping), C03 (blocks), C04 (bind), C17 (grammar), C19 (options),
C06 (robustness), C10 (well-formed bytecode): the extracted model is the oracle."""
import itertools, json, random, re
from .core import F, casehash
from .genprog import Gen, str_lit, int_lit, float_lit, ident, KEYWORDS, strip_markers
from . import interp

# error KIND of a runtime error, tolerant of rewording (an unrecognised wording is "other" and is not held against
# the implementation: the property fixes the kind of error, not its text)
ERR_CLASS = [
    (re.compile(r"(\w+): invalid types?: (\w+), (\w+)"), lambda m: "types:%s:%s:%s" % m.groups()),
    (re.compile(r"(NEG|UNPLUS)\W.*invalid type: (\w+)"), lambda m: "type1:%s:%s" % m.groups()),
    (re.compile(r"invalid types?"), lambda m: "types"),
    (re.compile(r"(?i)division by|divide by|div.* zero"), lambda m: "divzero"),
    (re.compile(r"(?i)not resolved|unresolved|undefined|unknown (identifier|name)"), lambda m: "unresolved"),
    (re.compile(r"(?i)duplicate"), lambda m: "dupchild"),
    (re.compile(r"(?i)no blocks"), lambda m: "bind:none"),
    (re.compile(r"(?i)found (\d+) blocks|expected just|exactly one"), lambda m: "bind:count"),
    (re.compile(r"(?i)invalid bind"), lambda m: "bind:invalid"),
    (re.compile(r"(?i)negative"), lambda m: "negrepeat"),
    (re.compile(r"(?i)stack overflow"), lambda m: "stackoverflow"),
    (re.compile(r"(?i)nested"), lambda m: "blockoverflow"),
]


def err_class(text):
    for rx, f in ERR_CLASS:
        m = rx.search(text)
        if m:
            return f(m)
    return "other"


def spec_checks(ctx, cases, suite):
    """T1 / T2 as executable statements: on every case the one-pass parser must agree with grammar ; code generator
    (t2check) and executing the generated code must agree with the big-step semantics over names (t1check).
    A disagreement means the Spec and the Model have drifted apart: a broken proof obligation, reported as such."""
    small = [c for c in cases if len(c["src"]) < 20000]
    res = ctx.model([("t2check", "t2/" + c["id"], c["src"]) for c in small] + [("t1check", "t1/" + c["id"], c["src"]) for c in small],
                    timeout=3000)
    stats = {}
    bad = 0
    for c in small:
        for k in ("t1/", "t2/"):
            r = res.get(k + c["id"], "missing")
            key = k + r.split(" ")[0] + (" " + r.split(" ")[1] if r.startswith(("skip", "agree")) and " " in r else "")
            stats[key] = stats.get(key, 0) + 1
            if r.startswith("DISAGREE") or r == "missing":
                bad += 1
                if bad <= 3:
                    ctx.broken.append(("proof", "statement of %s fails on an input (Spec vs Model)" % ("T1" if k == "t1/" else "T2"),
                                       "%s on %r" % (r, c["src"][:200])))
    ctx.suite_stats[suite + "_spec"] = stats


TIE_ASPECTS = {"parts", "logtext", "errtext", "outws"}


def decide(ctx, rs, missing, err, aspects, theorem, suite, keyf=None, errclass_only=False, spec=True):
    """model is the oracle: a disagreement on the observables the property is about is a concrete failing input;
    a disagreement only on tie observables (compiled bytes, wording) breaks the correspondence, not the property"""
    if spec:
        spec_checks(ctx, [c for c, o, m in rs], suite)
    ndis = 0
    ntie = 0
    classes = {}
    for cid in missing[:3]:
        c0 = ctx.case_by_id.get(cid, {})
        ctx.violation("the call never returned a result: the probe process had to be ended while running this case (panic in a "
                      "goroutine of the library, a hang, or unbounded memory growth): %s" % ctx.died.get(cid, "")[:200],
                      dict(id=cid, src_hex=c0.get("src_hex", "")[:4000], opts=c0.get("opts", ""), log=str(err or "")[-1500:]),
                      key="probe-crash", theorem=theorem)
    for c, o, m in rs:
        if o is None:
            continue
        gc = interp.go_class(o)
        classes[gc] = classes.get(gc, 0) + 1
        ctx.count(1, casehash(c["src"], c.get("opts", "")))
        asp = set(aspects)
        d = interp.compare(o, m, (asp - {"err"} if errclass_only else asp) - TIE_ASPECTS)
        if not d and gc == "runtime":
            me = bytes.fromhex(m.get("err", "")).decode("utf8", "replace")
            ci, cm = err_class(o["Err"]), err_class(me)
            if ci != cm and ci != "other" and not (ci == "types" or cm == "types") :
                d = ["errclass(%s/%s)" % (ci, cm)]
        if not d and (asp & TIE_ASPECTS):
            t = interp.compare(o, m, asp & TIE_ASPECTS)
            if t:
                ntie += 1
                if ntie <= 2:
                    ctx.broken.append(("correspondence", "suite %s: model and implementation differ on %s only" % (suite, ",".join(t)),
                                       "source %r" % c["src"][:200]))
        if gc in ("panic", "hang") and not m.get("class", "").startswith("panic:"):
            d = d or ["class"]
        if d:
            ndis += 1
            case = dict(src_hex=c["src"].hex(), src=c["src"][:400].decode("utf8", "replace"), opts=c.get("opts", ""))
            mm = {k: (v if len(v) < 600 else v[:600] + "...") for k, v in m.items()}
            oo = {k: (v if len(str(v)) < 600 else str(v)[:600] + "...") for k, v in o.items()}
            ctx.violation("implementation and model (the property's oracle) disagree on: " + ",".join(d), case,
                          impl=oo, model=mm, theorem=theorem, key="%s:%s" % (suite, d[0].split("(")[0]))
    st = ctx.suite_stats.setdefault(suite, dict(cases=0, disagreements=0, classes={}))
    st["cases"] += len(rs)
    st["disagreements"] += ndis
    for k, v in classes.items():
        st["classes"][k] = st["classes"].get(k, 0) + v
    ctx.traces += len(rs) - ndis
    return ndis


# ---------------------------------------------------------------- C01
OPERANDS = {
    "int": [b"0", b"1", b"2", b"7", b"-3", b"0x10", b"017", b"9223372036854775807", b"4611686018427387904"],
    "float": [b"0.0", b"1.5", b"2.0", b"0.1", b"1e3", b"2.5e-3", b"1e308", b"9007199254740993.0", b"123456789.0", b"0.000001"],
    "str": [b'""', b'"a"', b'"ab"', b'"b"', b'"\\n\\t\\x41\\u00e9"', b'"10"'],
    "bool": [b"true", b"false"],
    "nil": [b"nil"],
}
BINOPS = [b"+", b"-", b"*", b"/", b"==", b"!=", b"<", b">", b"<=", b">=", b"and", b"or"]


def cell_cases():
    """every (operator, left kind, right kind) cell, with zero and non-zero operands"""
    out = []
    for op in BINOPS:
        for ta, tb in itertools.product(OPERANDS, OPERANDS):
            for a in OPERANDS[ta][:4]:
                for b in OPERANDS[tb][:4]:
                    out.append(b"print " + a + b" " + op + b" " + b + b"\n")
    for u in [b"-", b"+", b"not ", b"- -", b"not not "]:
        for t in OPERANDS:
            for a in OPERANDS[t][:5]:
                out.append(b"print " + u + a + b"\n")
    # block-valued operands
    for op in BINOPS:
        out.append(b"def a { def b { x = 1 }\n print b " + op + b" 1\n }\n")
        out.append(b"def a { def b { x = 1 }\n print 1 " + op + b" b\n }\n")
        out.append(b"def a { def b { x = 1 }\n def c {}\n print b " + op + b" c\n }\n")
    return out


def chain(rng, kinds, n):
    """a op b op c ... without parentheses: precedence and associativity decide the value"""
    s = rng.choice(OPERANDS[rng.choice(kinds)])
    for _ in range(n):
        if rng.random() < 0.2:
            s += b" " + rng.choice([b"and", b"or"]) + b" " + (b"not " if rng.random() < .3 else b"")
        else:
            s += b" " + rng.choice(BINOPS[:10]) + b" " + rng.choice([b"", b"", b"-", b"+", b"not "])
        s += rng.choice(OPERANDS[rng.choice(kinds)])
    return s


def check_C01(ctx):
    ctx.build(["Proofs/TieParse.vo", "Proofs/TieVm.vo", "Proofs/TieLex.vo", "Properties/C01.vo"], "Properties/C01.v")
    rng = random.Random(ctx.seed * 1009 + 1)
    srcs = []
    cells = cell_cases()
    if not ctx.thorough:
        cells = rng.sample(cells, 1500)
    srcs += cells
    for _ in range(ctx.n(600, 6000)):
        kinds = rng.choice([["int"], ["int"], ["int", "float"], ["int", "float", "bool"], ["str", "int"], list(OPERANDS)])
        srcs.append(b"print " + chain(rng, kinds, rng.randint(2, 8)) + b"\n")
    g = Gen(rng, max_depth=ctx.n(5, 8), allow_errors=0.01, parens=0.25)
    from .genprog import Scope
    for _ in range(ctx.n(400, 4000)):
        sc = Scope()
        pre = b"var i = 7\nvar f = 2.5\nvar s = \"ab\"\nvar t = true\nvar z\n"
        sc.vars.update(i="int", f="float", s="str", t="bool", z="nil")
        ty = rng.choice(["int", "float", "str", "bool"])
        e = strip_markers(g.expr(ty, sc))[0]
        form = rng.random()
        if form < 0.4:
            srcs.append(pre + b"print " + e + b"\n")
        elif form < 0.7:
            srcs.append(pre + b"var v = " + e + b"\nprint v\nprint i\nprint s\n")
        else:
            srcs.append(pre + b"def b \"n\" { fld = 1.5\n k = " + e + b"\n print k\n}\n")
    # deep nesting
    for d in ([10, 100, 500] if not ctx.thorough else [10, 100, 500, 1000, 1022]):
        srcs.append(b"print " + b"(" * d + b"1" + b")" * d + b"\n")
        srcs.append(b"print " + b"1+(" * d + b"1" + b")" * d + b"\n")
        srcs.append(b"print " + b"- " * d + b"1\n")
        srcs.append(b"print " + b"not " * d + b"1\n")
        srcs.append(b"print 1" + b" and 1" * d + b"\n")
        srcs.append(b"print 0" + b" or 0" * d + b" or 5\n")
    # short circuit over long right operands: the jump distance needs its high byte (>= 256) and, at the limit, 16 bits
    for n in [100, 127, 128, 129, 200, 300, 1000] + ([32766, 32767, 32768, 32769] if ctx.thorough else [32767, 32768]):
        big = b"(1" + b"+1" * n + b")"
        for e in [b"false and " + big, b"true and " + big, b"7 or " + big, b"0 or " + big, b"nil and " + big + b" or 5",
                  b'"" or ' + big + b" and 2"]:
            srcs.append(b"print " + e + b"\n")
    for n in [40, 50, 100]:
        cat = b"(" + b" + ".join(b'"s%d"' % i for i in range(n)) + b")"
        srcs.append(b"def b { verbose = false\n banner = verbose and " + cat + b' or "none"\n print banner }\n')
        srcs.append(b"def b { verbose = 1\n banner = verbose and " + cat + b' or "none"\n print banner }\n')
    # operands of every dynamic type taken from FIELDS (incl. nil-valued ones, also shadowing an outer field) and variables
    fvals = [b"nil", b"0", b"0.0", b'""', b"false", b"7", b"2.5", b'"ab"', b"true", b"z"]
    for v in fvals:
        for op in [b"print x", b"print x == nil", b"print not x", b"print x or 5", b"print x and 5", b'print "s" + x', b"y = x\n print y"]:
            srcs.append(b"var z\ndef b { x = " + v + b"\n " + op + b" }\n")
            srcs.append(b"var z\ndef o { x = 7\n def i { x = " + v + b"\n " + op + b" }\n print x }\n")
    # mixed int/float comparisons with equal integer parts; division by the int zero with every numeric dividend
    for a in [b"2", b"3", b"-2", b"7/2", b"9007199254740993"]:
        for b2 in [b"2.5", b"2.0", b"3.5", b"-2.5", b"9007199254740992.0"]:
            for op in [b"==", b"!=", b"<", b">", b"<=", b">="]:
                srcs.append(b"print " + a + b" " + op + b" " + b2 + b"\nprint " + b2 + b" " + op + b" " + a + b"\n")
    for dvd in [b"1", b"1.0", b"0.0", b"-2.5", b"10/4.0", b"0"]:
        for dvs in [b"0", b"0x0", b"3-3", b"0.0", b"z0"]:
            srcs.append(b"var z0 = 0\nprint " + dvd + b" / " + dvs + b"\n")
    for fl in [b"0.00001", b"1e21", b"1.0/1000000", b"1e300", b"123456789012345678901.0", b"1e20", b"0.0001", b"5e-324", b"1e-7 * 3"]:
        srcs.append(b'print "v=" + ' + fl + b'\nvar f = ' + fl + b'\nprint "" + f\ndef b { s = "x" + f }\n')
    for rhs in [b"1", b"2.5", b'"s"', b"true", b"nil", b"inner", b"x"]:
        for op in [b"==", b"!="]:
            srcs.append(b"def a { x = 1\n def inner { y = 1 }\n has = inner " + op + b" " + rhs + b"\n rev = " + rhs + b" " + op + b" inner\n print has }\n")
    for e in [b"not (x and a != 2)", b"not (x or a <= 1)", b"not (a and a >= 1)", b"not a != 2", b"not (a <= 1)", b"not not (x and a != 0)",
              b"not (x and not a != 2)", b"(not (x and a != 2)) and 7"]:
        for x in (b"0", b"1"):
            srcs.append(b"var x = " + x + b"\nvar a = 2\nprint " + e + b"\ndef b { a = 0\n ok = " + e.replace(b"x", b"a") + b"\n print ok }\n")
    for lit in [b"017", b"0644", b"08", b"019", b"00", b"0", b"0x1F", b"0X1f", b"1_000", b"1e3", b"1E3", b".5", b"5.", b"0.5e-3", b"0b101", b"0o17"]:
        srcs.append(b"print " + lit + b"\ndef b { mode = " + lit + b" }\n")
    cases = [dict(id="e%d" % i, src=s) for i, s in enumerate(srcs)]
    rs, missing, err = interp.run(ctx, cases)
    decide(ctx, rs, missing, err, {"out", "blocks", "binding", "err"}, "C01_eval", "expr", errclass_only=True)
    for c in cases[:2] + cases[-300:-298]:
        ctx.sample(c["src"].decode("utf8", "replace")[:200])
    return ctx.finish("the extracted model (lexer+parser+VM) is the oracle; printed text, field values with dynamic "
                      "type and the runtime error class are compared")


# ---------------------------------------------------------------- C02
def scope_program(rng, maxdepth=5, bad=0.04):
    """declaration / assignment / read events over a tiny name pool, so shadowing and var/field reuse are
    frequent; scopes are tracked so that most programs are valid (bad = rate of deliberately invalid events)"""
    names = ["a", "b", "c", "x"]
    lines = []
    counter = [0]

    def val():
        counter[0] += 1
        return counter[0]

    # scopes: list of dict name -> 'int' | 'nil'; fields: list of sets (one per open block)
    def block(depth, scopes, fields, ind):
        def visible_vars():
            d = {}
            for sc in scopes:
                d.update(sc)
            return d

        def readable(numeric=True):
            vv = visible_vars()
            out = [n for n, t in vv.items() if t == "int" or not numeric]
            if depth > 0:
                for fs in fields:
                    out += [n for n in fs if n not in vv]
            return out

        for _ in range(rng.randint(1, 7)):
            k = rng.random()
            pad = b"  " * ind
            oops = rng.random() < bad
            if k < 0.28:
                free = [n for n in names if n not in scopes[-1]] or names
                n = rng.choice(names if oops else free)
                init = rng.random()
                rd = readable()
                if init < 0.5 or not rd:
                    lines.append(pad + b"var " + n.encode() + b" = %d" % val())
                    scopes[-1][n] = "int"
                elif init < 0.8:
                    lines.append(pad + b"var " + n.encode() + b" = " + rng.choice(rd).encode() + b" + %d" % val())
                    scopes[-1][n] = "int"
                else:
                    lines.append(pad + b"var " + n.encode())
                    scopes[-1][n] = "nil"
            elif k < 0.45:
                rd = readable(numeric=False)
                if not rd and not oops:
                    continue
                n = rng.choice(names) if oops or not rd else rng.choice(rd)
                lines.append(pad + b"print " + n.encode())
            elif k < 0.62:
                vv = visible_vars()
                if depth == 0:
                    if not vv and not oops:
                        continue
                    n = rng.choice(names if oops or not vv else list(vv))
                    lines.append(pad + b"eval " + n.encode() + b" = %d" % val())
                    for sc in reversed(scopes):
                        if n in sc:
                            sc[n] = "int"
                            break
                else:
                    n = rng.choice(names)
                    kw = b"eval " if rng.random() < .5 else b""
                    if rng.random() < 0.18:
                        # a field (or variable) holding nil is still present: it must be found, and shadow outer ones
                        nilvars = [m for m, t in visible_vars().items() if t == "nil"]
                        src = rng.choice(nilvars).encode() if nilvars and rng.random() < 0.5 else b"nil"
                        lines.append(pad + kw + n.encode() + b" = " + src)
                        lines.append(pad + b"print " + n.encode())
                        hit = False
                        for sc in reversed(scopes):
                            if n in sc:
                                sc[n] = "nil"
                                hit = True
                                break
                        if not hit:
                            fields[-1].add(n)
                        continue
                    lines.append(pad + kw + n.encode() + b" = %d" % val())
                    hit = False
                    for sc in reversed(scopes):
                        if n in sc:
                            sc[n] = "int"
                            hit = True
                            break
                    if not hit:
                        fields[-1].add(n)
            elif k < 0.72:
                rd = readable()
                if len(rd) >= 1 and (depth > 0 or visible_vars()):
                    tgt = [n for n in rd if n in visible_vars() or depth > 0]
                    if not tgt:
                        continue
                    n, m = rng.choice(tgt).encode(), rng.choice(tgt).encode()
                    lines.append(pad + b"print (" + n + b" = %d) + (" % val() + m + b" = " + n + b" + 1) + " + n)
            elif k < 0.78:
                lines.append(pad + b"print TYPE + NAME" if depth > 0 else pad + b"print %d" % val())
            elif k < 0.95 and depth < maxdepth:
                lines.append(pad + b"def t%d %s{" % (depth, (b'"n%d" ' % val()) if rng.random() < .5 else b""))
                block(depth + 1, scopes + [{}], fields + [set()], ind + 1)
                lines.append(pad + b"}")
            else:
                rd = readable()
                if len(rd) >= 1:
                    lines.append(pad + b"print " + rng.choice(rd).encode() + b" + " + rng.choice(rd).encode())

    block(0, [{}], [], 0)
    return b"\n".join(lines) + b"\n"


def check_C02(ctx):
    ctx.build(["Proofs/TieParse.vo", "Proofs/TieVm.vo", "Properties/C02.vo"], "Properties/C02.v")
    rng = random.Random(ctx.seed * 2003 + 2)
    srcs = [scope_program(rng, rng.choice([1, 2, 3, 5, 15])) for _ in range(ctx.n(1200, 12000))]
    srcs += [b"var x = 1\ndef b { var x = x + 1\n print x\n def c { var x = x + 1\n print x }\n print x }\nprint x\n",
             b"var x = 1\nvar x = 2\n", b"print y\n", b"def b { print y }\n", b"def b { y = 1\n def c { print y\n y = 2\n print y }\n print y }\n",
             b"var a\ndef b { a = 5 }\nprint a\n", b"def b { var a = 1\n}\nprint a\n",
             b"var x = 1\nprint (x = 2) + x\nprint x\n", b"def b { f = 1\n print (f = f + 1) + f }\n",
             b"var x = 5\ndef b { x = x + 1\n var x = x * 2\n x = x + 1\n print x }\nprint x\n",
             b"def a { x = 1\n def b { x = nil\n print x } }\n", b"var u\ndef a { f = u\n print f }\n",
             b"def a { f = 1 and nil\n print f\n def b { print f\n f = 2\n print f }\n print f }\n",
             b"def a { var v = 1\n var v = 2\n print v }\n", b"def a { var v = 1 }\ndef b { var v = 2\n print v }\n",
             b"def a { def b { var v = 1 }\n var w = 2\n var v = 3\n print v + w }\n",
             b"def a { var x = 1\n def b { } }\nprint x\n", b"def a { var t = 1\n def inner { } }\ndef c { t = 5\n u = t + 1 }\n",
             b"def a { var v = 1\n def inner { } }\nvar v = 2\nprint v\n",
             b"def a { var n = 1\n def b { var m = 2\n def c { } }\n n = 3\n print n }\ndef d { n = 4\n print n }\n",
             b"var t = 1\ndef marker { }\nvar t = 2\nprint t\n", b"def marker { }\nprint nope\n",
             b"def p { var a = 1\n def e { }\n var b = 2 }\ndef q { a = 5 }\n",
             b'var k = "top"\ndef m { }\ndef s { var k = "inner"\n print k }\nprint k\n',
             b"def svc { port = 8000\n var port = port+1\n port = port+10\n addr = \"host:\"+port }\n",
             b"def a { retries = 1 }\nvar retries = 5\ndef b { print retries }\ndef c { retries = 9 }\nprint retries\n"]
    # scopes with more than 240 / 255 variables: slot numbers and the count popped at the scope's end need 2 bytes
    for n in (239, 240, 241, 250, 255, 256, 300):
        decl = b"".join(b"var v%d = %d\n" % (i, i) for i in range(n))
        srcs.append(decl + b"var a = v%d + 1\nprint a\nprint v0 + v%d\n" % (n - 1, n - 1))
        srcs.append(b"var t = 7\ndef b {\n" + decl + b"print v%d\n}\nvar a = t + 1\nvar b2 = a + 1\nprint a\nprint b2\nprint t\n" % (n - 1))
        srcs.append(b"def o { def b {\n" + decl + b"x = v%d\n}\nvar w = 9\nprint w\ny = w }\nvar z = 1\nprint z\n" % (n - 1))
    cases = [dict(id="s%d" % i, src=s) for i, s in enumerate(srcs)]
    rs, missing, err = interp.run(ctx, cases)
    decide(ctx, rs, missing, err, {"out", "blocks", "log", "parts"}, "C02_scoping", "scope", errclass_only=True)
    for c in cases[:3]:
        ctx.sample(c["src"].decode()[:300])
    return ctx.finish("model is the oracle for output, blocks, accept/reject with diagnostic positions and the compiled code")


# ---------------------------------------------------------------- C03 / C04
def blocks_program(rng, with_bind=False, inject_error=True):
    types = ["tunnel", "srv", "db", "x"] if rng.random() < 0.8 else ["my_svc", "mysvc", "MySvc", "x"]
    lines = []
    ntop = rng.randint(0, 6)
    made = []

    def body(depth, ind, visible, keys):
        """visible: field name -> kind for reads (this block and enclosing ones); keys: child keys of this block"""
        pad = b"  " * ind
        mine = {}
        for _ in range(rng.randint(0, 6)):
            k = rng.random()
            f = rng.choice(["host", "port", "on", "x", "srv", "tunnel"] + (["TYPE", "NAME"] if rng.random() < 0.15 else []))
            vis = dict(visible)
            vis.update(mine)
            if k < 0.45:
                nums = [n for n, t in vis.items() if t == "num"]
                choices = [(b"%d" % rng.randint(0, 99), "num"), (b"2.5", "num"), (b'"s"', "str"), (b"true", "bool"),
                           (b"nil", "nil"), (b"TYPE", "str"), (b"NAME", "str"), (b'TYPE + "/" + NAME', "str")]
                if nums:
                    n = rng.choice(nums)
                    choices += [(n.encode() + b" + 1", "num"), (n.encode(), "num")] * 2
                if vis:
                    n = rng.choice(list(vis))
                    choices.append((n.encode(), vis[n]))
                v, kind = rng.choice(choices)
                lines.append(pad + f.encode() + b" = " + v)
                mine[f] = kind
            elif k < 0.52:
                lines.append(pad + b"var v_" + f.encode() + b" = 3")
            elif k < 0.85 and depth < 4:
                t = rng.choice(types)
                nmtxt, nm = rng.choice([(b"", ""), (b"", ""), (b' "a"', "a"), (b' "b"', "b"), (b' ""', ""), (b' "a.b"', "a.b"), (b' "a."', "a."), (b' "."', ".")])
                key = t + ("." + nm if nm else "")
                if (key in keys or key in mine or key in ("host", "port", "on")) and rng.random() < 0.85:
                    continue                      # mostly avoid duplicate children
                keys.add(key)
                lines.append(pad + b"def " + t.encode() + nmtxt + b" {")
                body(depth + 1, ind + 1, vis, set())
                lines.append(pad + b"}")
                if nm == "":
                    mine[key] = "block"
            elif k < 0.93:
                if vis:
                    lines.append(pad + b"print " + rng.choice(list(vis)).encode())
            elif inject_error and rng.random() < 0.08:
                lines.append(pad + rng.choice([b"eval 1 / 0", b"print nosuch", b'eval "a" - 1']))

    for i in range(ntop):
        t = rng.choice(types)
        nm = rng.choice([b"", b' "n%d"' % i, b' "same"', b' "\\x41\\n"'])
        lines.append(b"def " + t.encode() + nm + b" {")
        body(1, 1, {}, set())
        lines.append(b"}")
        made.append(t)
        if with_bind and rng.random() < 0.4:
            lines.append(bind_stmt(rng, made))
        if rng.random() < 0.15:
            lines.append(b"var v%d = %d" % (i, i))
    if with_bind:
        for _ in range(rng.randint(0, 2)):
            lines.append(bind_stmt(rng, made or types))
    return b"\n".join(lines) + b"\n"


SELS = [b"", b":1", b":first", b":last", b":all", b":2", b":foo", b":", b':"a"', b":01", b":0x1", b":001", b":1.0", b":0", b":10", b":First", b":ALL"]
TGTS = [b"struct", b"slice", b"map", b""]


def bind_stmt(rng, types):
    t = rng.choice(types + (["nosuch"] if rng.random() < 0.1 else [])).encode()
    sel = rng.choice([b":first", b":last", b":all", b":first", b":last", b"", b":1"]) if rng.random() < 0.97 else rng.choice(SELS)
    tgt = (b"slice" if sel == b":all" or rng.random() < 0.4 else b"struct") if rng.random() < 0.97 else rng.choice(TGTS)
    return b"bind " + t + sel + b" -> " + tgt


def check_C03(ctx):
    ctx.build(["Proofs/TieVm.vo", "Properties/C03.vo"], "Properties/C03.v")
    rng = random.Random(ctx.seed * 3001 + 3)
    srcs = [blocks_program(rng) for _ in range(ctx.n(1000, 10000))]
    srcs += [blocks_program(rng, with_bind=True, inject_error=False) for _ in range(ctx.n(300, 3000))]
    srcs += [b'def a "outer" { def b "mid" { def c "in" { x = TYPE + NAME } }\n t1 = TYPE\n n1 = NAME\n print TYPE + "." + NAME }\n',
             b'def a "o" { def b "m" { def c "i" { }\n tb = TYPE + NAME }\n ta = TYPE + NAME\n def d "e" { def f "g" { def h { } } }\n tz = NAME }\n',
             b'def tunnel "a" { x = 1 }\ndef tunnel "b" { x = 2 }\ndef tunnel "a" { x = 3 }\ndef other "a" { }\ndef tunnel { }\ndef tunnel { }\ndef tunnel "a" { x = 4 }\n']
    srcs += [b"def svc { port = 8000\n var port = port+1\n port = port+10\n addr = \"host:\"+port }\n",
             b"def a { retries = 1 }\nvar retries = 5\ndef b { x = retries }\ndef c { retries = 9\n y = retries }\n",
             b"def a { f = 1\n def b { f = 2\n var f = 3\n g = f }\n h = f\n var f = 4\n i = f }\n",
             b"def a { var v = 1\n v = 2\n w = v }\ndef b { v = 3\n w = v }\n"]
    srcs += [b'def g { def tls { }\n def tls2 { conns = 100\n def burst { n = 5 } } }\ndef h { def tls { }\n def log { path = "/var/log/a" } }\n',
             b'def a { def e { }\n def f { x = 1 } }\ndef b { def e { }\n def f { y = 2 } }\n',
             b'def s "a" { x = 1 }\ndef s "b" { x = 2 }\ndef s "a" { x = 3 }\nbind s:all -> slice\n',
             b'def s "a" { x = 1 }\ndef s "a" { x = 2 }\nbind s -> struct\n']
    srcs += [b'def p { def zone "example.com." {}\n def zone "example.com" {}\n def zone "" {}\n def zone "." {}\n def zone {} }\n',
             b'def p { def zone "a." { x = 1 }\n def zone "a" { x = 2 } }\ndef zone "b." {}\ndef zone "b" {}\n',
             b'def zone "master" { TYPE = "m"\n own = TYPE\n def record "www" { kind = TYPE\n label = NAME }\n NAME = "n"\n nm = NAME\n def record "x" { k = TYPE + NAME } }\n',
             b'def a { x = 1\n def b { x = 2\n def c { x = 3\n print x }\n print x }\n print x }\n',
             b'def server "a" {}\ndef client "b" {}\ndef server "c" {}\ndef client "d" {}\nbind client:all -> slice\n',
             b'def x "1" {}\ndef y "2" {}\ndef y "3" {}\nbind y:last -> struct\ndef x "4" {}\n',
             b'def rack "a\\tb" { same = NAME == "a\\tb" }\ndef rack "caf\\u00e9" {}\ndef rack "say \\"hi\\"" {}\n']
    srcs += [b'def a "n" { def b "m" { x = 1 }\n def b "m" { x = 2 } }\n', b"def a { def b {}\n b = 1 }\n",
             b"def a { b = 1\n def b {} }\n", b'def a { def b "c" {}\n def b "c" {} }\n', b"def a {}\ndef a {}\n",
             b'def a "x.y" { def b { def c { TYPE = 1\n print TYPE } } }\n', b"def a { x = 1 }\nprint 1/0\ndef b {}\n",
             b'def a { def a { def a { z = NAME + TYPE } } }\n', b'def a "1" { p = NAME\n def q "2" { p = NAME } }\n']
    cases = [dict(id="b%d" % i, src=s) for i, s in enumerate(srcs)]
    rs, missing, err = interp.run(ctx, cases)
    decide(ctx, rs, missing, err, {"out", "blocks", "binding"}, "C03_blocks", "blocks", errclass_only=True)
    for c in cases[:3]:
        ctx.sample(c["src"].decode()[:300])
    return ctx.finish("Blocks are read straight from bcl.Interpret and printed canonically (recursive, keys sorted)")


def check_C04(ctx):
    ctx.build(["Proofs/TieVm.vo", "Proofs/TieParse.vo", "Properties/C04.vo"], "Properties/C04.v")
    rng = random.Random(ctx.seed * 4001 + 4)
    srcs = []
    # the whole selector x target space with 0..4 blocks of the bound type before and after
    for sel in SELS:
        for tgt in TGTS:
            for nb in range(0, 5):
                for after in (0, 2):
                    s = b"".join(b'def t "n%d" { i = %d }\ndef other { }\n' % (k, k) for k in range(nb))
                    s += b"bind t" + sel + b" -> " + tgt + b"\n"
                    s += b"".join(b'def t "late%d" { }\n' % k for k in range(after))
                    srcs.append(s)
    for bt in (b"my_svc", b"mysvc", b"MySvc", b"my_s_vc", b"MYSVC"):
        for sel, tgt in ((b"", b"struct"), (b":first", b"struct"), (b":last", b"struct"), (b":all", b"slice"), (b":1", b"slice")):
            srcs.append(b'def my_svc "a" { i = 1 }\ndef mysvc "b" { i = 2 }\ndef MySvc "c" { i = 3 }\nbind ' + bt + sel + b" -> " + tgt + b"\n")
    srcs += [b"def a{x=1}\ndef other{y=0}\ndef a{x=2}\nbind a:all -> slice\n", b"def a{x=1}\ndef other{y=0}\ndef a{x=2}\nbind a -> struct\n",
             b"def o{}\ndef a{x=1}\ndef o{}\ndef o{}\ndef a{x=2}\ndef a{x=3}\ndef o{}\nbind a:all -> slice\n"]
    srcs += [b"def t {}\nbind t -> struct\nbind t:first -> struct\nbind t:last -> struct\n", b"def t {}\ndef t {}\nbind t:all -> slice\nbind t:first -> slice\nbind t:all -> slice\n",
             b"def t { x = 1 }\nbind t -> struct\nbind t -> struct\nprint 1\n"]
    srcs += [b"def t {}\nbind t -> struct\nbind t:first -> slice\nbind t:last -> struct\n",
             b"def t {}\ndef a { bind t -> struct }\n", b"def a { def t {}\n bind t -> struct }\n",
             b"def t {}\nbind t -> struct\nbind nosuch -> struct\n", b"bind -> struct\n", b"bind t struct\n",
             b"def t {}\nbind t:all -> struct\n", b"def t {}\nbind t:1 -> slice;bind t -> slice\n"]
    srcs += [blocks_program(rng, with_bind=True, inject_error=False) for _ in range(ctx.n(600, 6000))]
    # the bound type's name deep in the constant pool: operand indices beyond 240 / 2287 need 2 / 3 bytes
    for n in [100, 119, 120, 121, 125, 128, 300] + ([1200] if ctx.thorough else []):
        big = b"def limits { " + b" ".join(b"f%d = %d" % (i, i + 2) for i in range(n)) + b" }\n"
        srcs.append(big + b'def server "s" { x = 1 }\nbind server -> struct\n')
        srcs.append(big + b'def server "s" { x = 1 }\ndef server "t" {}\nbind server:last -> slice\nbind limits -> struct\n')
    cases = [dict(id="k%d" % i, src=s, seq=["", ""]) for i, s in enumerate(srcs)]
    rs, missing, err = interp.run(ctx, cases)
    decide(ctx, rs, missing, err, {"out", "blocks", "binding", "log"}, "C04_bind", "bind", errclass_only=True)
    for c, o, m in rs:
        # every execution of a compiled program selects and warns afresh
        for st in (o or {}).get("_seq") or []:
            ctx.count(1)
            if interp.go_class(o) in ("ok", "runtime") and (st["blocks"], st["binding"], interp.diag_proj(bytes.fromhex(st["log"]))) != (
                    o["Blocks"], o["Binding"], interp.diag_proj(bytes.fromhex(o["Log"]))):
                ctx.violation("executing the compiled program again gives a different binding / different warnings than the first run",
                              dict(src_hex=c["src"].hex(), src=c["src"][:300].decode("utf8", "replace")), impl=st,
                              model=dict(blocks=o["Blocks"], binding=o["Binding"], log=o["Log"]), theorem="C04_warning_iff_rebind",
                              key="bind-rerun")
                break
    ctx.suite_stats["bind"]["exhaustive_selector_target_space"] = len(SELS) * len(TGTS) * 5 * 2
    for c in cases[40:43]:
        ctx.sample(c["src"].decode()[:300])
    return ctx.finish("binding (kind and canonical blocks), warnings with positions and error class are compared")
