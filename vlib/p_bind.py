"""C15 (Bind never panics / drops / coerces), C05 (Unmarshal reproduces values), bind part of C16."""
import json, random, struct
from .core import F, casehash

# shapes of the compiled-in named types of harness/cmd/bclprobe/bind.go
def fld(n, t, tag="", emb=False):
    return dict(n=n, t=t, tag=tag, emb=emb)

INT, FLT, STR, BOOL = dict(k="int"), dict(k="float64"), dict(k="string"), dict(k="bool")
NAMED = {
    "Extras": [fld("MaxLatency", FLT), fld("Note", STR)],
    "Foo_Bar": [fld("Name", STR), fld("X_Y", INT)],
    "Inner": [fld("Deep", INT), fld("Shared", STR)],
    "Other": [fld("Shared", STR), fld("Solo", BOOL)],
    "inner": [fld("Low", INT), fld("Name", STR)],
}
NAMED["Listener#1"] = [fld("Name", STR), fld("Port", INT, tag="listen"), fld("Iface", STR)]
NAMED["Listener#2"] = [fld("Iface", STR, tag="listen"), fld("Name", STR), fld("Port", INT)]
NAMED["WithInner"] = [fld("inner", dict(k="named", name="inner"), emb=True), fld("Port", INT)]
NAMED["Tunnel"] = [fld("Name", STR), fld("Host", STR), fld("Port", INT), fld("On", BOOL), fld("Extras", dict(k="named", name="Extras"))]


def exported(name):
    return "A" <= name[0] <= "Z"


def type_fields(t):
    if t["k"] == "named":
        return NAMED[t["name"]]
    return t["fields"]


def enc_type(t):
    """netstring form for Suites.read_type"""
    k = t["k"]
    if k == "int":
        return F("i")
    if k == "float64":
        return F("f")
    if k == "string":
        return F("s")
    if k == "bool":
        return F("b")
    if k == "iface":
        return F("I")
    if k == "ifaceN":
        return F("J")
    if k == "ptr":
        return F("P", enc_type(t["elem"]))
    if k == "slice":
        return F("L", enc_type(t["elem"]))
    if k in ("struct", "named"):
        name = t["name"].split("#")[0] if k == "named" else ""
        fs = [F(f["n"], ("1" if exported(f["n"]) else "0") + ("1" if f.get("emb") else "0"), f.get("tag", ""), enc_type(f["t"]))
              for f in type_fields(t)]
        return F("S", name, F(*fs))
    return F("o")


def enc_val(v):
    if isinstance(v, dict):
        return b"B" + F(v["t"], v["n"], F(*[F(k, enc_val(x)) for k, x in v.get("f", [])]))
    if v[0] == "s":
        return b"s" + bytes.fromhex(v[1:])
    return v.encode()


def fbits(x):
    return struct.unpack(">Q", struct.pack(">d", x))[0]


def rand_value(rng, ty):
    k = ty["k"]
    if k == "int":
        return "i%d" % rng.choice([0, 1, -1, 42, 2**63 - 1, -2**63, rng.randint(-10**6, 10**6)])
    if k == "float64":
        return "f%d" % fbits(rng.choice([0.0, 1.5, -2.25, 1e308, 5e-324, 0.1, rng.random() * 1000]))
    if k == "string":
        return "s" + bytes(rng.choice(b"abc xyz\n\"\\\x00\xc3\xa9") for _ in range(rng.randint(0, 8))).hex()
    if k == "bool":
        return rng.choice(["b0", "b1"])
    return "n"


def spell(rng, name):
    """a BCL key the matching rule admits for Go field `name`: case changes, added AND removed underscores"""
    out = []
    if "_" in name and rng.random() < 0.5:
        name = name.replace("_", "") if rng.random() < 0.6 else name.replace("_", "", 1)
    for ch in name:
        if rng.random() < 0.2:
            out.append("_")
        out.append(ch.lower() if rng.random() < 0.6 else ch.upper())
    if rng.random() < 0.15:
        out.append("_")
    s = "".join(out)
    return s if s.strip("_") else name


SCALARS = [INT, FLT, STR, BOOL]
OTHERS = ["int8", "int32", "int64", "uint", "uint8", "float32", "complex128", "map", "array", "func", "chan", "uintptr", "bytes", "rune"]
FNAMES = ["Host", "Port", "LocalPort", "On", "X", "Xy", "MaxLatency", "Name", "Note", "Deep", "A1", "Foo_Bar", "URL", "Local_Port", "Max_Retry_Count"]


def gen_struct(rng, depth, family_only=False, with_name=True):
    """a struct type; family_only = the supported family of C05 (scalar fields + nested structs)"""
    n = rng.randint(0, 5)
    names = rng.sample(FNAMES, min(n, len(FNAMES)))
    fs = []
    if with_name and rng.random() < 0.8 and "Name" not in names:
        fs.append(fld("Name", STR))
    for nm in names:
        if nm == "Name":
            fs.append(fld("Name", STR))
            continue
        k = rng.random()
        if k < 0.6 or depth <= 0:
            t = rng.choice(SCALARS)
        elif k < 0.8:
            t = gen_struct(rng, depth - 1, family_only, with_name=rng.random() < 0.5)
        elif family_only:
            t = dict(k="named", name=rng.choice(["Extras", "Inner", "Other"]))
            nm = t["name"]           # a named struct type must also match the block type: field name = type name
        else:
            t = rng.choice([dict(k=rng.choice(OTHERS)), dict(k="iface"), dict(k="ifaceN"), dict(k="ptr", elem=rng.choice(SCALARS)),
                            dict(k="ptr", elem=dict(k="named", name="Inner")), dict(k="slice", elem=INT),
                            dict(k="slice", elem=dict(k="named", name="Other")), dict(k="named", name="Tunnel")])
        tag = ""
        if rng.random() < 0.15:
            tag = rng.choice(["my_" + nm.lower(), "x", nm, "other.key"])
        fs.append(fld(nm, t, tag))
    if not family_only:
        if rng.random() < 0.2:
            fs.append(fld(rng.choice(["hidden", "port", "name"]), rng.choice(SCALARS)))
        if rng.random() < 0.2:
            e = rng.choice(["Inner", "Other"])
            fs.append(fld(e, dict(k="named", name=e), emb=True))
        if rng.random() < 0.1:
            fs.append(fld("Inner", dict(k="ptr", elem=dict(k="named", name="Inner")), emb=True))
    seen, out = set(), []
    for f in fs:
        if f["n"] not in seen:
            seen.add(f["n"])
            out.append(f)
    return dict(k="struct", fields=out)


def block_for(rng, ty, btype, fault=0.0, nested_name=True):
    """a block whose fields fit struct type ty (spelled per the matching rule), plus faults"""
    fs = []
    name = ""
    for f in type_fields(ty):
        if f.get("emb") and exported(f["n"]) and f["t"]["k"] == "named" and rng.random() < 0.6:
            # an embedded struct is reachable as a whole (nested block keyed by its type name) and through its
            # promoted fields; both at once address overlapping storage
            sub = NAMED[f["t"]["name"]]
            how = rng.random()
            if how < 0.7:
                for g in sub:
                    if rng.random() < 0.6:
                        fs.append([spell(rng, g["n"]), rand_value(rng, g["t"])])
            if how > 0.4:
                child = block_for(rng, f["t"], spell(rng, f["n"]), 0.0, nested_name)
                child["n"] = ""
                fs.append([child["t"], child])
            continue
        if not exported(f["n"]) or f.get("emb"):
            continue
        # a tagged field is reachable by its tag and (if no other field claims it) by its Go name as well
        key = f["tag"] if f.get("tag") and rng.random() < 0.6 else spell(rng, f["n"])
        t = f["t"]
        if f["n"] == "Name" and t["k"] == "string" and not f.get("tag"):
            if rng.random() < 0.7:
                name = bytes(rng.choice(b"abcdef-1") for _ in range(rng.randint(1, 6))).decode()
                if rng.random() < 0.3:      # names that need escaping when written as a BCL string literal
                    name = "".join(rng.choice(['\\', '"', "\t", "\n", "é", "a", " ", "C:\\temp", 'say "hi"', "#", "{", "v1.2", ".", "db.example.com"]) for _ in range(rng.randint(1, 3)))
            continue
        if rng.random() < 0.15:
            continue                                 # a struct field without a key is fine
        if t["k"] in ("int", "float64", "string", "bool"):
            fs.append([key, rand_value(rng, t)])
        elif t["k"] in ("struct", "named"):
            bt = t["name"] if t["k"] == "named" else key.split(".")[0]
            child = block_for(rng, t, bt, fault, nested_name)
            # the child's key in the parent is type or type.name; it must fold to the Go field name
            child["t"] = spell(rng, f["n"]) if not (f.get("tag") and key == f["tag"]) else f["tag"].split(".")[0]
            if t["k"] == "named" and rng.random() < 0.9:
                child["t"] = spell(rng, f["n"])
            ckey = child["t"] + ("." + child["n"] if child["n"] else "")
            fs.append([ckey if not (f.get("tag") and key == f["tag"]) else f["tag"], child])
        elif t["k"] == "iface":
            fs.append([key, rand_value(rng, rng.choice(SCALARS))])
    if rng.random() < fault:
        k = rng.random()
        if k < 0.2:
            fs.append([rng.choice(["nosuch", "zz_top", "hidden", "port"]), "i1"])
        elif k < 0.4 and fs:
            i = rng.randrange(len(fs))
            fs[i] = [fs[i][0], rng.choice(["n", "i7", "s61", "b1", "f4609434218613702656"])]
        elif k < 0.6 and fs:
            i = rng.randrange(len(fs))
            alt = fs[i][0].replace("_", "") + "_"
            fs.append([alt.upper() if alt != fs[i][0] else alt + "_", fs[i][1]])      # two keys onto one field
        elif k < 0.8:
            fs.append([rng.choice(["deep", "shared", "low", "solo", "inner", "Inner", "other"]), rng.choice(["i3", "s78", "b1"])])
        else:
            fs.append([rng.choice(["host", "x", "extras"]), dict(t="extras", n="", f=[["note", "s6e"]])])
    rng.shuffle(fs)
    uniq = {}
    for k, v in fs:                      # a Go map holds one value per key
        uniq[k] = v
    return dict(t=btype, n=name, f=[[k, v] for k, v in uniq.items()])


def named_target(rng):
    nm = rng.choice(["Tunnel", "Foo_Bar", "Extras", "Other"])
    return dict(k="named", name=nm), nm


def gen_cases(ctx, rng, n):
    cases = []
    for i in range(n):
        family = rng.random() < 0.45
        if rng.random() < 0.3:
            ty, tname = named_target(rng)
            btype = spell(rng, tname) if rng.random() < 0.9 else "wrong"
        else:
            ty, btype = gen_struct(rng, 2, family_only=family), rng.choice(["tunnel", "x", "db"])
        fault = 0.0 if family and rng.random() < 0.7 else 0.5
        mode = "ptr" if rng.random() < 0.85 else rng.choice(["nil", "value", "nilptr"])
        bkind = rng.choice(["struct", "struct", "slice", "slice", "none", "unknown"]) if rng.random() < 0.25 else rng.choice(["struct", "slice"])
        nb = 1 if bkind == "struct" else rng.randint(0, 3)
        blocks = [block_for(rng, ty, btype, fault) for _ in range(max(nb, 1 if bkind in ("struct",) else nb))]
        tdesc = ty
        if bkind == "slice" and rng.random() < 0.9:
            tdesc = dict(k="slice", elem=ty)
        elif rng.random() < 0.08:
            tdesc = rng.choice([INT, dict(k="slice", elem=INT), dict(k="ptr", elem=ty), dict(k="map"), dict(k="iface")])
        cases.append(dict(id="b%d" % i, mode=mode, type=tdesc, bkind=bkind, blocks=blocks, prev=rng.choice([0, 0, 2]),
                          prefill=rng.random() < 0.35))
    return cases


def model_item(c):
    mode = dict(nil="n", value="v", nilptr="z", ptr="p")[c["mode"]]
    if c.get("prefill") and c["mode"] == "ptr":
        mode = "q"
    bk = dict(struct="s", slice="l", none="n", unknown="u")[c["bkind"]]
    return ("bind", c["id"], F(mode, enc_type(c["type"]), bk, *[enc_val(b) for b in c["blocks"]]))


def check_C15(ctx):
    ctx.build(["Properties/C15.vo"], "Properties/C15.v")
    rng = random.Random(ctx.seed * 15013 + 15)
    cases = gen_cases(ctx, rng, ctx.n(1500, 15000))
    # hand-written corners: the defects repaired in 9339403 and the matching rule
    T = lambda *fs: dict(k="struct", fields=list(fs))
    corners = [
        ("ptr", T(fld("X", INT)), "struct", [dict(t="a", n="", f=[["x", "n"]])]),
        ("ptr", T(fld("P", dict(k="ptr", elem=dict(k="named", name="Inner")))), "struct", [dict(t="a", n="", f=[["p", dict(t="p", n="", f=[])]])]),
        ("ptr", T(fld("Inner", dict(k="named", name="Inner"), emb=True)), "struct", [dict(t="a", n="", f=[["deep", "i5"], ["shared", "s78"]])]),
        ("ptr", T(fld("Inner", dict(k="named", name="Inner"), emb=True), fld("Other", dict(k="named", name="Other"), emb=True)), "struct",
         [dict(t="a", n="", f=[["shared", "s78"]])]),
        ("ptr", T(fld("Inner", dict(k="ptr", elem=dict(k="named", name="Inner")), emb=True)), "struct", [dict(t="a", n="", f=[["deep", "i5"]])]),
        ("ptr", dict(k="named", name="WithInner"), "struct", [dict(t="withinner", n="nm", f=[["low", "i5"], ["port", "i1"]])]),
        ("ptr", dict(k="named", name="WithInner"), "struct", [dict(t="with_inner", n="", f=[["inner", "i5"]])]),
        ("ptr", T(fld("Inner", dict(k="named", name="Inner"), emb=True)), "struct",
         [dict(t="a", n="", f=[["Deep", "i5"], ["inner", dict(t="inner", n="", f=[["deep", "i7"]])]])]),      # promoted key, then the block
        ("ptr", T(fld("Inner", dict(k="named", name="Inner"), emb=True)), "struct",
         [dict(t="a", n="", f=[["deep", "i5"], ["Inner", dict(t="Inner", n="", f=[["deep", "i7"]])]])]),      # block first, then the promoted key
        ("ptr", T(fld("Inner", dict(k="named", name="Inner"), emb=True)), "struct",
         [dict(t="a", n="", f=[["shared", "s78"], ["inner", dict(t="inner", n="", f=[["deep", "i7"]])]])]),   # different fields, same storage
        ("ptr", T(fld("Inner", dict(k="named", name="Inner"), emb=True)), "struct",
         [dict(t="a", n="", f=[["inner", dict(t="inner", n="", f=[["deep", "i7"], ["shared", "s78"]])]])]),
        # two distinct types printing the same, bound one after the other in one process (state kept per type NAME would mix them)
        ("ptr", dict(k="named", name="Listener#1"), "struct", [dict(t="listener", n="pub", f=[["listen", "i8080"], ["iface", "s65746830"]])]),
        ("ptr", dict(k="named", name="Listener#2"), "struct", [dict(t="listener", n="priv", f=[["listen", "s65746831"], ["port", "i22"]])]),
        ("ptr", dict(k="named", name="Listener#1"), "struct", [dict(t="listener", n="", f=[["listen", "i1"]])]),
        ("ptr", dict(k="slice", elem=dict(k="named", name="Listener#2")), "slice", [dict(t="listener", n="a", f=[["listen", "s78"]]), dict(t="listener", n="b", f=[["port", "i2"]])]),
        ("ptr", T(fld("Inner", dict(k="named", name="Inner"), emb=True), fld("Port", INT, tag="listen"), fld("Weight", INT)), "struct",
         [dict(t="a", n="", f=[["listen", "i8080"], ["weight", "i3"], ["deep", "i1"]])]),          # an embedded struct in front of a tagged field
        ("ptr", T(fld("Other", dict(k="named", name="Other"), emb=True), fld("A", STR, tag="x"), fld("B", STR), fld("C", STR, tag="y")), "struct",
         [dict(t="a", n="", f=[["x", "s61"], ["y", "s63"], ["b", "s62"], ["solo", "b1"]])]),
        ("ptr", T(fld("Name", STR), fld("Port", INT)), "struct", [dict(t="a", n="", f=[["name", "s646231"], ["port", "i5432"]])]),
        ("ptr", T(fld("Name", STR), fld("Port", INT)), "struct", [dict(t="a", n="", f=[["n_ame", "s646231"]])]),
        ("ptr", dict(k="slice", elem=T(fld("Name", STR))), "slice", [dict(t="a", n="", f=[["NAME", "s78"]]), dict(t="a", n="q", f=[])]),
        # a nested field of a NAMED struct type whose name does not match the nested block's type; nested names with dots
        ("ptr", T(fld("Name", STR), fld("Limits", dict(k="named", name="Other"))), "struct",
         [dict(t="a", n="alpha", f=[["limits.hard", dict(t="limits", n="hard", f=[["solo", "b1"]])]])]),
        ("ptr", T(fld("Name", STR), fld("Other", dict(k="named", name="Other"))), "struct",
         [dict(t="a", n="alpha", f=[["other.v1.2", dict(t="other", n="v1.2", f=[["solo", "b1"]])]])]),
        ("ptr", T(fld("Up", T(fld("Name", STR), fld("X", INT)))), "struct", [dict(t="a", n="", f=[["up.db.example.com", dict(t="up", n="db.example.com", f=[["x", "i1"]])]])]),
        ("ptr", T(fld("Up", T(fld("Name", STR), fld("X", INT)))), "struct", [dict(t="a", n="", f=[["up..hidden", dict(t="up", n=".hidden", f=[["x", "i1"]])]])]),
        ("ptr", T(fld("Xy", INT)), "struct", [dict(t="a", n="", f=[["x_y", "i1"], ["xy", "i2"]])]),
        ("ptr", T(fld("Xy", INT), fld("Z", STR)), "struct", [dict(t="a", n="", f=[["x_y", "s61"], ["z", "i2"]])]),
        ("ptr", T(fld("Foo_Bar", INT)), "struct", [dict(t="a", n="", f=[["foo_bar", "i1"]])]),
        ("ptr", dict(k="named", name="Foo_Bar"), "struct", [dict(t="foobar", n="n", f=[["xy", "i1"]])]),
        ("ptr", T(fld("Name", INT)), "struct", [dict(t="a", n="", f=[])]),
        ("ptr", T(fld("Name", STR)), "struct", [dict(t="a", n="", f=[["name", "s78"]])]),
        ("ptr", T(fld("Name", STR)), "struct", [dict(t="a", n="nm", f=[["name", "s78"]])]),
        ("ptr", T(fld("A", STR, tag="Name")), "struct", [dict(t="a", n="nm", f=[])]),
        ("ptr", T(fld("A", INT, tag="k"), fld("B", INT, tag="k")), "struct", [dict(t="a", n="", f=[["k", "i1"]])]),
        ("ptr", T(fld("Any", dict(k="iface"))), "struct", [dict(t="a", n="", f=[["any", dict(t="b", n="", f=[])]])]),
        ("ptr", T(fld("Any", dict(k="iface"))), "struct", [dict(t="a", n="", f=[["any", "i7"]])]),
        ("ptr", T(fld("E", dict(k="ifaceN"))), "struct", [dict(t="a", n="", f=[["e", "s78"]])]),
        ("ptr", T(fld("X", dict(k="int64"))), "struct", [dict(t="a", n="", f=[["x", "i7"]])]),
        ("ptr", T(fld("X", FLT)), "struct", [dict(t="a", n="", f=[["x", "i7"]])]),
        ("ptr", dict(k="slice", elem=INT), "slice", [dict(t="a", n="", f=[])]),
        ("ptr", dict(k="slice", elem=T(fld("X", INT))), "slice", [dict(t="a", n="", f=[["x", "i1"]]), dict(t="a", n="", f=[["x", "s61"]])]),
        ("ptr", dict(k="slice", elem=T(fld("X", INT))), "slice", []),
    ]
    long_blocks = [dict(t="a", n="n%d" % i, f=([["x", "s78"]] if i >= 128 else [["x", "i%d" % i]]) + ([["oops%d" % i, "i1"]] if i == 67 else [])) for i in range(256)]   # element 67: unknown key; 128..255: type mismatch
    corners.append(("ptr", dict(k="slice", elem=T(fld("Name", STR), fld("X", INT))), "slice", long_blocks))
    corners.append(("ptr", dict(k="slice", elem=T(fld("Name", STR), fld("X", INT))), "slice", long_blocks[:60] + long_blocks[68:100]))
    for i, (mode, ty, bk, blks) in enumerate(corners):
        cases.append(dict(id="corner%d" % i, mode=mode, type=ty, bkind=bk, blocks=blks, prev=2))
    res, missing, err = ctx.probe("bind", cases)
    for cid in missing[:3]:
        ctx.violation("the probe died while binding", dict(id=cid, log=(err or "")[-1000:]), key="probe-crash", theorem="C15_total")
    mres = ctx.model([model_item(c) for c in cases])
    ndis, classes = 0, {}
    for c in cases:
        r = res.get(c["id"])
        if not r:
            continue
        ctx.count(1, casehash(json.dumps(c, sort_keys=True)))
        case = dict(mode=c["mode"], type=c["type"], bkind=c["bkind"], blocks=c["blocks"], prefill=c.get("prefill", False))
        if r["class"] != "ok":
            ctx.violation("Bind %s: %s" % (r["class"], r.get("panic", "")[:300]), case, impl=r, theorem="C15_total", key="bind-" + r["class"])
            continue
        obs = r["obs"]
        classes[obs.split(" ")[0] + (" " + obs.split(" ")[1] if obs.startswith("err") else "")] = classes.get(obs.split(" ")[0] + (" " + obs.split(" ")[1] if obs.startswith("err") else ""), 0) + 1
        if obs.startswith("err") and c["mode"] == "ptr" and r.get("unchanged") is False and c["type"]["k"] == "slice":
            ctx.violation("Bind returned an error but the slice target was modified", case, impl=r, theorem="C15_slice_atomic",
                          key="slice-not-atomic")
        m = mres.get(c["id"], "")
        if m != obs:
            ndis += 1
            ctx.violation("Bind outcome differs from the model: implementation %r, model %r" % (obs[:200], m[:200]), case,
                          impl=r, model=m, theorem="C15_faithful/C15_errors", key="bind-differs:" + obs.split(" ")[0])
    ctx.suite_stats["bindtargets"] = dict(cases=len(cases), disagreements=ndis, outcomes=classes)
    ctx.traces = len(cases) - ndis
    for c in cases[:2]:
        ctx.sample(dict(type=c["type"], bkind=c["bkind"], blocks=c["blocks"][:1]))
    return ctx.finish("targets are built with reflect.StructOf plus a compiled-in family of named types; blocks carry BCL value "
                      "kinds only (int, float64, string, bool, nil, Block)")
