"""C16: same input, same outcome -- repeated runs in one process, fresh processes with different GOMAXPROCS,
map-order sensitive Bind cases, and ParseFile under repeated schedules."""
import json, os, random
from .core import F, casehash, sh, BUILD, VERIF
from .genprog import Gen
from .p_lang import blocks_program, scope_program
from .p_bind import gen_cases as bind_cases, fld, INT, STR, FLT


def run_probe_env(ctx, suite, cases, env, tag):
    path = os.path.join(VERIF, "evidence", "work", "%s_%s.cases.jsonl" % (ctx.prop, tag))
    with open(path, "w") as f:
        for c in cases:
            f.write(json.dumps(c) + "\n")
    res, missing, tail = ctx.run_probe([os.path.join(BUILD, "bclprobe"), suite], cases, 1800, dict(os.environ, **env))
    for cid in missing[:2]:
        ctx.violation("the call never returned a result: the probe had to be ended while running this case (%s)" % ctx.died.get(cid, "")[:200],
                      dict(suite=suite, case={k: (v if len(str(v)) < 2000 else str(v)[:2000]) for k, v in ctx.case_by_id.get(cid, {}).items()}),
                      key="probe-crash", theorem="C16")
    return res


def check_C16(ctx):
    ctx.build(["Proofs/TieGlobals.vo", "Properties/C16.vo"], "Properties/C16.v")
    rng = random.Random(ctx.seed * 16001 + 16)
    g = Gen(rng, max_depth=3, allow_errors=0.05)
    progs = [g.program() for _ in range(ctx.n(150, 1500))]
    progs += [blocks_program(rng, with_bind=True) for _ in range(ctx.n(60, 600))]
    progs += [scope_program(rng, 3, bad=0.2) for _ in range(ctx.n(60, 600))]
    progs += [b"print 1 +\nprint *\nvar x = )\n" * 5, b"def a { x = 1\n y = 2\n z = 3\n w = 4\n v = 5 }\nprint 1\n", b"print @\n"]
    # 1. twice in one process, interleaved with everything else (earlier calls must not matter)
    progs += [b"def cfg { host = 1\n port = 2\n user = 3\n pass = 4\n print hots }\n", b"def a { x = 1\n y = 2\n z = 3\n def b { w = 4\n v = 5\n print nosuch } }\n"] * 4
    from . import interp as _interp
    progs = _interp.drop_excluded(ctx, progs)
    cases = [dict(id="a%d" % i, src_hex=p.hex(), opts="", name="input", sticky=(i % 7 == 0), **({"seq": ["", "W", "", "t", ""]} if i % 5 == 0 else {}))
             for i, p in enumerate(progs)]
    cases += [dict(id="b%d" % i, src_hex=p.hex(), opts="", name="input") for i, p in reversed(list(enumerate(progs)))]
    base = run_probe_env(ctx, "interp", cases, {}, "inproc")
    for i, p in enumerate(progs):
        a, b = base.get("a%d" % i), base.get("b%d" % i)
        if not a or not b:
            continue
        ctx.count(1, casehash(p))
        plain = [st for st in (a.get("seq") or []) if st["opts"] == ""]
        if plain and any((st["class"], st.get("err", ""), st["out"], st["log"], st["blocks"], st["binding"]) !=
                         (plain[0]["class"], plain[0].get("err", ""), plain[0]["out"], plain[0]["log"], plain[0]["blocks"], plain[0]["binding"]) for st in plain[1:]):
            ctx.violation("executing a Prog (once with writers of its own, once traced) changes what later plain executions of the same Prog do",
                          dict(src_hex=p.hex(), src=p[:300].decode("utf8", "replace"), sequence=["", "W", "", "t", ""]), impl=plain,
                          theorem="C16_prog_readonly", key="prog-sticky")
        stc = a.get("sticky")
        if stc and stc.get("class") == "ok":
            want_out, want_log = a["obs"]["Out"], a["obs"]["Log"]
            if stc["first_touched"] or stc["second_out"] != want_out or stc["second_log"] != want_log:
                ctx.violation("options given to one call show in a later call that does not give them (or a later call wrote to an earlier "
                              "call's writers)", dict(src_hex=p.hex(), src=p[:300].decode("utf8", "replace")), impl=stc,
                              model=dict(out=want_out, log=want_log), theorem="C16_no_global_state", key="sticky-options")
        if a["obs"].get("Altered"):
            ctx.violation(a["obs"]["Altered"], dict(src_hex=p.hex(), src=p[:300].decode("utf8", "replace")), impl=a["obs"],
                          theorem="C16_prog_readonly", key="prog-altered")
        if a["obs"] != b["obs"]:
            ctx.violation("two calls in one process gave different outcomes", dict(src_hex=p.hex(), src=p[:300].decode("utf8", "replace")),
                          impl=a["obs"], model=b["obs"], theorem="C16_execute_pure", key="repeat-inproc")
    by_src = {}
    for i, p in enumerate(progs):
        for k in ("a%d" % i, "b%d" % i):
            if base.get(k):
                by_src.setdefault(p, []).append(json.dumps({x: y for x, y in base[k]["obs"].items() if not x.startswith("_")}, sort_keys=True))
    for p, obs in by_src.items():
        if len(set(obs)) > 1:
            ctx.violation("%d runs of one program in one process gave %d different outcomes" % (len(obs), len(set(obs))),
                          dict(src_hex=p.hex(), src=p[:300].decode("utf8", "replace")), impl=sorted(set(obs))[:3],
                          theorem="C16_execute_pure", key="repeat-many")
    # 2. fresh processes with different GOMAXPROCS and hash seeds
    first = [c for c in cases if c["id"].startswith("a")]
    for procs in ("1", "2", "16"):
        other = run_probe_env(ctx, "interp", first, {"GOMAXPROCS": procs}, "procs" + procs)
        for c in first:
            a, b = base.get(c["id"]), other.get(c["id"])
            if a and b:
                ctx.count(1)
                if a["obs"] != b["obs"]:
                    ctx.violation("a fresh process with GOMAXPROCS=%s gave a different outcome" % procs,
                                  dict(src_hex=c["src_hex"]), impl=b["obs"], model=a["obs"], theorem="C16_schedule", key="repeat-process")
    # 3. Bind: keys colliding on one field, several faulty fields at once -- 40 repetitions each
    bcs = bind_cases(ctx, rng, ctx.n(300, 3000))
    T = lambda *fs: dict(k="struct", fields=list(fs))
    extra = [
        (T(fld("Xy", INT)), [dict(t="a", n="", f=[["x_y", "i1"], ["xy", "i2"], ["X_Y", "i3"]])]),
        (T(fld("Xy", INT), fld("Z", STR), fld("W", FLT)), [dict(t="a", n="", f=[["xy", "s61"], ["z", "i2"], ["w", "b1"], ["q", "i1"]])]),
        (T(fld("A", INT), fld("B", INT), fld("C", INT)), [dict(t="a", n="", f=[["a", "n"], ["b", "n"], ["c", "n"], ["d", "n"], ["e", "n"]])]),
        (T(fld("Name", STR)), [dict(t="a", n="nm", f=[["name", "s78"], ["NAME", "s79"], ["n_a_m_e", "s7a"]])]),
    ]
    for i, (ty, blks) in enumerate(extra):
        bcs.append(dict(id="x%d" % i, mode="ptr", type=ty, bkind="struct", blocks=blks, prev=0))
    # same-named distinct types bound in both orders within one process; a long slice with several faulty elements
    L1 = (dict(k="named", name="Listener#1"), [dict(t="listener", n="pub", f=[["listen", "i8080"], ["iface", "s65746830"]])])
    L2 = (dict(k="named", name="Listener#2"), [dict(t="listener", n="priv", f=[["listen", "s65746831"], ["port", "i22"]])])
    for i, (ty, blks) in enumerate([L1, L2, L1, L2]):
        bcs.append(dict(id="lst%d" % i, mode="ptr", type=ty, bkind="struct", blocks=blks, prev=0))
    long_blocks = [dict(t="a", n="n%d" % i, f=([["x", "s78"]] if i >= 128 else [["x", "i%d" % i]]) + ([["oops%d" % i, "i1"]] if i == 67 else [])) for i in range(256)]   # element 67: unknown key; 128..255: type mismatch
    bcs.append(dict(id="long", mode="ptr", type=dict(k="slice", elem=T(fld("Name", STR), fld("X", INT))), bkind="slice", blocks=long_blocks, prev=0))
    for c in bcs:
        c["repeat"] = 40
    bres = run_probe_env(ctx, "bind", bcs, {}, "bind")
    from .p_bind import model_item
    mb = ctx.model([model_item(c) for c in bcs])
    nb = 0
    for c in bcs:
        r = bres.get(c["id"])
        if not r:
            continue
        nb += 1
        if r.get("class") == "ok" and mb.get(c["id"]) is not None and r.get("obs") != mb[c["id"]]:
            # the outcome of a call depends on nothing but its arguments: the model computes it from them alone
            ctx.violation("Bind outcome %r differs from the outcome determined by the arguments alone %r (earlier calls in the "
                          "process must not matter)" % ((r.get("obs") or "")[:160], mb[c["id"]][:160]),
                          dict(id=c["id"], type=c["type"], blocks=c["blocks"][:3]), impl=r, model=mb[c["id"]],
                          theorem="C16_bind_order", key="bind-history")
        ctx.count(40, casehash(json.dumps(c, sort_keys=True)))
        if r.get("distinct", 1) != 1:
            ctx.violation("Bind gave %d different outcomes over 40 calls (map iteration order)" % r["distinct"],
                          dict(type=c["type"], blocks=c["blocks"]), impl=r.get("outcomes"), theorem="C16_bind_order", key="bind-order")
    # 4. ParseFile over many reads, repeated: schedule independence of the outcome
    errsrc = b"".join(b"print %d +\nvar v%d = )\n" % (i, i) for i in range(200))
    pf = [dict(id="pf%d" % k, name="f", src_hex=errsrc.hex(), partitions=[[7], [1], [3, 0, 5], [4096]]) for k in range(ctx.n(6, 40))]
    pres = run_probe_env(ctx, "chunks", pf, {}, "pf")
    for c in pf:
        r = pres.get(c["id"])
        if r:
            ctx.count(len(r["parts"]), c["id"])
            for p in r["parts"]:
                if not p["same"]:
                    ctx.violation("ParseFile outcome differs between runs / from Parse", dict(src_hex=c["src_hex"][:200], sizes=p["sizes"]),
                                  impl=p.get("obs"), model=r["whole"], theorem="C16_schedule", key="parsefile-repeat")
    # 5. the returned error must not depend on the schedule: early lexical failure, more data, then a read error
    sched_cases = []
    failsrc = b"print @\n" + b"print 1\n" * 200
    for k in range(ctx.n(60, 400)):
        sc = [["d", rng.choice([8, 20, 100])], ["d", 50], ["d", 50]] + [["d", 30]] * rng.randint(0, 3) + [["x", 0]]
        sched_cases.append(dict(id="sch%d" % k, src_hex=failsrc.hex(), script=sc, api="parse", delay_us=rng.choice([0, 0, 50, 200, 1000])))
    sres = run_probe_env(ctx, "proto", sched_cases, {}, "sched")
    by_script = {}
    for c in sched_cases:
        r = sres.get(c["id"])
        if r:
            ctx.count(1, c["id"])
            by_script.setdefault(json.dumps(c["script"]), set()).add((r["result"], r["reads"], r["closes"]))
    for sc, outs in by_script.items():
        if len(outs) > 1:
            ctx.violation("ParseFile under the same read script gave different outcomes on repetition: %s" % sorted(outs),
                          dict(script=json.loads(sc), src="print @ ... (lexical failure in the first read, read error later)"),
                          impl=sorted(outs), theorem="C16_schedule", key="parsefile-schedule")
    ctx.suite_stats["repeat_schedule"] = dict(runs=len(sched_cases), scripts=len(by_script))
    ctx.suite_stats["repeat"] = dict(programs=len(progs), processes=["1", "2", "16"], bind_cases=nb, bind_repetitions=40, parsefile_runs=len(pf) * 4)
    ctx.traces = len(progs)
    ctx.sample(dict(program=progs[0][:150].decode("utf8", "replace")))
    ctx.sample(dict(bind=extra[0][1]))
    return ctx.finish("repetition observes the schedules and map orders that happened; the theorems (function-hood of the model, "
                      "sorted key order, schedule independence of the protocol model) cover all of them")
