"""C17 (grammar / diagnostics), C20 (layout), C08 (positions), C19 (introspection options), C06 (robustness),
C10 (well-formed bytecode)."""
import itertools, json, os, random, re
from .core import F, casehash
from .genprog import Gen, strip_markers, str_lit
from . import interp, tokens
from .p_lang import decide, err_class, scope_program, blocks_program
from .p_lex import lex_soup, LEX_BAD

DIAG_LINE = re.compile(rb"^line \d+:\d+: error( at end| at '.*')?: .+$", re.S)


def parts_code_consts(parts):
    d = dict(kv.split("=", 1) for kv in parts.split(" ") if "=" in kv)
    return d.get("code", ""), d.get("consts", "")


# ---------------------------------------------------------------- C17
def check_C17(ctx):
    ctx.build(["Proofs/TieParse.vo", "Proofs/TieLex.vo", "Properties/C17.vo"], "Properties/C17.v")
    rng = random.Random(ctx.seed * 17017 + 17)
    g = Gen(rng, max_depth=3, allow_errors=0.0)
    bases = [g.program() for _ in range(ctx.n(120, 1200))]
    bases += [scope_program(rng, 3, bad=0) for _ in range(ctx.n(40, 400))]
    bases += [blocks_program(rng, with_bind=True, inject_error=False) for _ in range(ctx.n(40, 400))]
    bases += [b"var x = 1; print x;\n", b"def a { x = 1; y = 2 } ; bind a -> struct\n", b"eval 1\nprint 2\n",
              b"var a = 1\neval a = a = 2\nprint (a = 3) + 1\n", b"def b { f = g = 1\n print (f = 2) }\n"]
    toks = tokens.lex_many(ctx, bases)
    srcs = []
    for b, tk in zip(bases, toks):
        srcs.append(("base", b))
        if tk is None or not tk:
            continue
        for kind, p, vals in tokens.mutations(rng, tk, ctx.n(6, 40)):
            srcs.append((kind, tokens.join_tokens(vals)))
    # handwritten grammar corners
    corners = [b"print 1 +\nprint *\n", b"print 1 + ;\nprint *\n", b"def b { 1 2 }\n", b";;\n", b"def b { ;; }\n",
               b"var\n", b"var 1\n", b"var x =\n", b"def\n", b"def b\n", b"def b {\n", b"def b { var }\n", b"}\n", b"{\n",
               b"1\n", b"x = 1\n", b"eval\n", b"print\n", b"print (1\n", b"print 1)\n", b"print (1 = 2)\n",
               b"var x = 1\neval 1 = x\n", b"var x = 1\neval x + 1 = 2\n", b"var x = 1\neval (x) = 2\n",
               b"var x = 1\neval -x = 2\n", b"var x = 1\neval not x = 2\n", b"var x = 1\nprint 1 + x = 2\n",
               b"var x = 1\neval x = x = x = 4\nprint x\n", b"var x=1\nprint (x = 2)\n", b"bind\n", b"bind t\n",
               b"bind t ->\n", b"bind t : -> struct\n", b"bind t:1:1 -> struct\n", b"print 1 print 2\n",
               b"var x = 1 var y = 2 print x + y\n", b"var x = 1 +\nvar y = *\nprint 3 +\ndef q { z = }\nprint 4\n",
               b"print 1 +\ndef b { x = 1 }\nprint *\n", b"var x = )\nvar y = 2\nprint y\neval (\n",
               b"print 08\nprint 1\n", b'print "\\q"\nprint 1 +\n', b"print 1e999\n", b"print @\nprint 1\n",
               b"print 1 \"unterminated\nprint 2\n", b"def b { print @ }\n", b"def a { def b { x = 1 +\n } }\nprint 1 +\n"]
    srcs += [("corner", c) for c in corners]
    # ungrammatical assignments and separators (each must be rejected; the grammatical twin accepted)
    for src in [b"var a = 1\nprint 1 + a = 2\n", b"var a = 1\neval -a = 1\n", b"var a = 1\neval not a = 1\n", b"var a = 1\nvar b = 2\neval a and b = 2\n",
                b"def blk { x = 1 + y = 2 }\n", b"var a = 1\neval (a) = 2\n", b"var a = 1\neval a = 1 = 2\n", b"var a = 1\nvar b = 1\neval a = b = 2\n",
                b"def b { x = 1;; y = 2 }\n", b"def b { print 1;; }\n", b"def a { def b {x=1};; }\n", b"print 1;; print 2\n", b"def b { x = 1; y = 2; }\n",
                b"def b { ; }\n", b";\n", b"print 1;\n;\n", b"eval 1; 2\n", b"var port = 8080; port = 9090\n", b"print 1; )\nprint 2\n"]:
        srcs.append(("corner", src))
    cases = [dict(id="g%d" % i, src=s, kind=k) for i, (k, s) in enumerate(srcs)]
    rs, missing, err = interp.run(ctx, cases)
    decide(ctx, rs, missing, err, {"log", "parts", "out"}, "C17_accepts_iff", "syntax", errclass_only=True)
    # implementation-only part of the property: rejected <=> error, no results, >= 1 well-formed diagnostic
    kinds = {}
    for c, o, m in rs:
        if o is None:
            continue
        gc = interp.go_class(o)
        kinds[(c["kind"], gc)] = kinds.get((c["kind"], gc), 0) + 1
        log = bytes.fromhex(o["Log"])
        dl = [l for l in log.split(b"\n") if l.startswith(b"line ")]
        case = dict(src_hex=c["src"].hex(), src=c["src"][:300].decode("utf8", "replace"))
        if gc == "parse":
            if not dl:
                ctx.violation("rejected without any diagnostic on the log writer", case, impl=o, theorem="C17_error_iff_log",
                              key="reject-no-diag")
            if o["Blocks"] or o["Binding"] != "none" or o["Out"]:
                ctx.violation("rejected but results or output were produced", case, impl=o, theorem="C17_error_iff_log",
                              key="reject-with-results")
        elif gc in ("ok", "runtime"):
            if dl:
                ctx.violation("accepted but a diagnostic was written", case, impl=o, theorem="C17_error_iff_log",
                              key="accept-with-diag")
    ctx.suite_stats["syntax"]["kinds"] = {"%s/%s" % k: v for k, v in sorted(kinds.items())}
    for c in cases[1:4]:
        ctx.sample(dict(kind=c["kind"], src=c["src"].decode("utf8", "replace")[:200]))
    return ctx.finish("accept/reject, number and positions of diagnostics, quoted token / 'at end', and the compiled parts "
                      "of accepted sources are compared with the model; wording only for parser messages")


# ---------------------------------------------------------------- C20
def check_C20(ctx):
    ctx.build(["Proofs/TieLex.vo", "Proofs/TieParse.vo", "Properties/C20.vo"], "Properties/C20.v")
    rng = random.Random(ctx.seed * 20011 + 20)
    g = Gen(rng, max_depth=3, allow_errors=0.01, parens=0.1)
    marked = [g.program_marked() for _ in range(ctx.n(150, 1500))]
    plain = [strip_markers(t) for t in marked]
    toks = tokens.lex_many(ctx, [p for p, _ in plain])
    cases, pairs = [], []
    for i, ((base, marks), tk) in enumerate(zip(plain, toks)):
        if tk is None:
            continue
        cases.append(dict(id="L%d/0" % i, src=base))
        variants = [tokens.render(rng, tk, marks, min_layout=True)]
        for v in range(ctx.n(3, 8)):
            variants.append(tokens.render(rng, tk, marks, add_parens=rng.choice([0, 0.3, 0.6]),
                                          add_semis=rng.choice([0, 0.5, 1.0])))
        for v, txt in enumerate(variants):
            cases.append(dict(id="L%d/%d" % (i, v + 1), src=txt))
            pairs.append(("L%d/0" % i, "L%d/%d" % (i, v + 1)))
    # literals at the edge of the int range under unary minus, with and without redundant parentheses
    for k, (x, y) in enumerate([(b"print -9223372036854775808\n", b"print -(9223372036854775808)\n"), (b"print -0x8000000000000000\n", b"print -(0x8000000000000000)\n"),
                                (b"print -9223372036854775807 - 1\n", b"print (-(9223372036854775807)) - (1)\n"),
                                (b"def b { m = -9223372036854775808 }\n", b"def b { m = (-(9223372036854775808)) }\n"),
                                (b"print - 5\n", b"print -(5)\n"), (b"print not not 1\n", b"print not (not (1))\n"), (b"print -1.5e3\n", b"print -((1.5e3))\n")]):
        cases.append(dict(id="X%d/0" % k, src=x))
        cases.append(dict(id="X%d/1" % k, src=y))
        pairs.append(("X%d/0" % k, "X%d/1" % k))
    # strings are opaque; comments end at CR or LF and nowhere else (expected output computed here, no model)
    direct = []
    for body in [b"# not a comment", b"a;b", b"( )", b" \t\v\f ", b"x = 1 # y", "\u0085 ".encode(), b"{}", b"#", b";;", b"a  b",
                 b"print 2", b"'", b"`", b"a\rb", b"\r", b"\r\r x", b"a\x0bb\x0cc", "\u00a0".encode(), b"\x00", b"tab\there", b"# \r #"]:
        direct.append((b'print "' + body + b'"\n', body + b"\n"))
    for end, stops in [(b"\n", True), (b"\r", True), (b"\r\n", True), (b"\v", False), (b"\f", False), ("\u0085".encode(), False),
                       (" ".encode(), False), (b"\t", False), (b";", False), (b'"', False), (b"\\", False), (b"\\\n", True)]:
        direct.append((b"print 1 # c" + end + b"print 2\n", b"1\n2\n" if stops else b"1\n"))
    for glued, want in [(b"print 42# answer\n", b"42\n"), (b"print 0x1f# hex\n", b"31\n"), (b"print 1.5# f\n", b"1.5\n"), (b'print "h"# s\n', b"h\n"),
                        (b"var x = 7# v\nprint x# id\n", b"7\n"), (b"print (1)# p\n", b"1\n"), (b"print true# kw\n", b"true\n"),
                        (b'def b "n"#c\n{ print NAME#c\n}#c\n', b"n\n"), (b"def t {}\nbind t:1# sel\n -> struct# tgt\nprint 1\n", b"1\n"),
                        (b"print 1e3# e\n", b"1000\n"), (b"print 1 +# op\n 2\n", b"3\n")]:
        direct.append((glued, want))
    direct.append((b'def b "x\ry" { print NAME + "|" }\r', b"x\ry|\n"))
    direct.append((b'var s = "p\rq"\rprint s\rprint "1\r2" + s\r', b"p\rq\n1\r2p\rq\n"))
    for i, (src, want) in enumerate(direct):
        cases.append(dict(id="D%d" % i, src=src, want=want))
    rs, missing, err = interp.run(ctx, cases)
    decide(ctx, rs, missing, err, {"out", "blocks", "binding", "parts", "log"}, "C20_layout", "layout", errclass_only=True)
    byid = {c["id"]: (c, o) for c, o, m in rs if o is not None}
    npairs = 0
    for a, b in pairs:
        if a not in byid or b not in byid:
            continue
        (ca, oa), (cb, ob) = byid[a], byid[b]
        npairs += 1
        ctx.count(1, casehash(ca["src"], cb["src"]))
        same = (interp.go_class(oa) == interp.go_class(ob) and oa["Out"] == ob["Out"] and oa["Blocks"] == ob["Blocks"]
                and oa["Binding"] == ob["Binding"] and parts_code_consts(oa["Parts"]) == parts_code_consts(ob["Parts"]))
        if same and interp.go_class(oa) == "runtime":
            same = err_class(oa["Err"]) == err_class(ob["Err"])
        if not same:
            ctx.violation("re-rendering with different layout / redundant parentheses / optional ';' changed the meaning",
                          dict(original_hex=ca["src"].hex(), rerendered_hex=cb["src"].hex(),
                               original=ca["src"][:300].decode("utf8", "replace"),
                               rerendered=cb["src"][:400].decode("utf8", "replace")),
                          impl=dict(a=oa, b=ob), theorem="C20_layout", key="layout-changes-meaning")
    for c, o, m in rs:
        if o is not None and "want" in c:
            ctx.count(1, casehash(c["src"]))
            if bytes.fromhex(o["Out"]) != c["want"] or interp.go_class(o) != "ok":
                ctx.violation("string content or comment extent not respected", dict(src_hex=c["src"].hex(),
                              src=c["src"].decode("utf8", "replace")), impl=o, model=c["want"].decode("utf8", "replace"),
                              theorem="C20_string_opaque/C20_comment_extent", key="string-or-comment")
    pg = []
    for pad in list(range(4078, 4100)):
        for k, body in enumerate([b'print "a#\xc3\xa9;(b)"\n', "print 1 \u00a0+ 2\n".encode(), "print 1 \u0085+ 2\n".encode(), 'print "\U0001F600" + 1\n'.encode(),
                                  "var s = \"€\"\nprint s # \u00e9\n".encode()]):
            pg.append(dict(id="pg%d-%d" % (pad, k), name="f", src_hex=(b"var a = 1" + b" " * pad + body).hex(), partitions=[[4096], [4095], [4097]]))
    pres, pmiss, perr = ctx.probe("chunks", pg, tag="pages")
    outs = {}
    for c in pg:
        r = pres.get(c["id"])
        if not r:
            continue
        k = c["id"].split("-")[1]
        for p in r["parts"]:
            ctx.count(1, casehash(c["src_hex"][-60:], c["id"], json.dumps(p["sizes"])))
            if not p["same"]:
                ctx.violation("the number of blanks between two tokens changes the result when the file is read in pages (reads %s)" % p["sizes"],
                              dict(blanks=int(c["id"][2:].split("-")[0]), tail=bytes.fromhex(c["src_hex"])[-40:].decode("utf8", "replace"), sizes=p["sizes"]),
                              impl=p.get("obs"), model=r["whole"], theorem="C20_layout_any", key="layout-paged")
                break
        w = r["whole"]
        outs.setdefault(k, set()).add((w.get("Class"), w.get("Err"), parts_code_consts(w.get("Parts", ""))))
    for k, v in outs.items():
        if len(v) > 1:
            ctx.violation("sources differing only in the number of blanks between two tokens compile differently", dict(body=k), impl=sorted(map(str, v))[:3],
                          theorem="C20_layout_any", key="layout-blanks")
    ctx.suite_stats["layout"]["paged"] = len(pg)
    ctx.suite_stats["layout"]["pairs"] = npairs
    ctx.suite_stats["layout"]["direct"] = len(direct)
    for a, b in pairs[:2]:
        if b in byid:
            ctx.sample(dict(original=byid[a][0]["src"].decode("utf8", "replace")[:150],
                            rerendered=byid[b][0]["src"].decode("utf8", "replace")[:250]))
    return ctx.finish("direct oracle: code+constants and behaviour of original vs re-rendered source; model oracle on every rendering")


# ---------------------------------------------------------------- C08
def offset_of(src, line, col):
    """inverse of the documented line:col rule: offset = (offset of the (line-1)th newline, or -1) + col"""
    nl = -1
    for _ in range(line - 1):
        nl = src.find(b"\n", nl + 1)
        if nl < 0:
            return None
    return nl + col


def spec_linecol(src, pos):
    before = src[:pos]
    line = 1 + before.count(b"\n")
    last = before.rfind(b"\n")
    return line, pos - last if last >= 0 else pos + 1


def check_C08(ctx):
    ctx.build(["Proofs/TieLex.vo", "Proofs/TieParse.vo", "Properties/C08.vo"], "Properties/C08.v")
    rng = random.Random(ctx.seed * 8009 + 8)
    g = Gen(rng, max_depth=3, allow_errors=0.0)
    srcs = []
    layouts = [b"", b"\n\n\n", b"# comment\n", b"\r\n", b"   \t", "  # é€\n".encode(), b"\n" * 300, b"# pad\n" * 500,
               (b"#" + b"x" * 78 + b"\n") * 60]
    if ctx.thorough:
        layouts.append((b"#" + b"y" * 98 + b"\n") * 700)       # offsets beyond 67823
    errs_compile = [b"print 1 +\n", b"var x = )\n", b"print @\n", b"print 12abc\n", b"eval\n", b"print 08\n", b"}\n",
                    b'print "abc\n', "var é = 1\n".encode(), b"def b { x = }\n", b"print (1\n", b"bind t -> map\n"]
    errs_compile += [b'def "100%" {}\n', b'var "%d items" = 3\n', b'def t {}\nbind t:"%s" -> slice\n', b'print "%v" "%!x"\n', b"var %x = 1\n"]
    errs_runtime = [b"print 1 / 0\n", b'print "a" - 1\n', b"def b { print nosuch }\n", b"print -nil\n",
                    b"def t {}\nbind t -> struct\nbind t -> struct\nprint 1\n", "print \"é\" < 1\n".encode(), b"bind t -> struct\n",
                    b"def a { def b {}\n def b {} }\n", b"print (1 +\n   2) / (3 -\n 3)\n"]
    for _ in range(ctx.n(250, 2500)):
        pre = b"".join(rng.choice(layouts[:6]) + strip_markers(g.program_marked(rng.randint(0, 4)))[0]
                       for _ in range(rng.randint(0, 3)))
        pad = rng.choice(layouts) if rng.random() < 0.3 else b""
        bad = rng.choice(errs_compile + errs_runtime)
        post = g.program(rng.randint(0, 3))
        srcs.append(pad + pre + rng.choice([b"", b"  ", b"\n \t"]) + bad + post)
    # large configurations: operands (constant indices, local slots) that need 2 or 3 bytes must not shift the
    # position table; the error comes after that point, in the middle of an expression that continues
    for n in [100, 119, 121, 125, 250, 400] + ([2400] if ctx.thorough else []):
        big = b"".join(b'def srv "s%d" {\n  host = "h%d"\n  port = %d\n}\n' % (i, i, 7000 + i) for i in range(n // 3 + 1))
        biglocals = b"".join(b"var v%d = %d\n" % (i, i) for i in range(n))
        for bad in errs_runtime[:4] + [b"var z = 0\nprint 10 / z -\n   100\n", b'var s = "x"\nprint -s\n  + 1\n', b"def q { x = nosuch + 2 }\n"] + errs_compile[:3]:
            srcs.append(big + bad + b"print 1\n")
            srcs.append(biglocals + bad)
    # errors raised at the implementation limits: the operand stack exactly full when the next push happens
    for n in (1022, 1023, 1024):
        decl = b"".join(b"var v%d = %d\n" % (i, i) for i in range(n))
        srcs.append(decl + b"\n\nprint v0 +\n   v1 + 2\n")
        srcs.append(decl + b"def b {\n  x = v0\n}\n")
        srcs.append(b"print " + b"1+(" * n + b"1" + b")" * n + b"\n")
    srcs.append(b"def a {" * 16 + b"\n  def deep { x = 1 }\n" + b"}" * 16 + b"\n")
    # every fourth case: an unrelated source is parsed between compiling and running (positions belong to the program)
    cases = [dict(id="d%d" % i, src=s, opts=("I" if i % 4 == 0 else "")) for i, s in enumerate(srcs)]
    rs, missing, err = interp.run(ctx, cases)
    decide(ctx, rs, missing, err, {"log", "err", "parts"}, "C08_compile_diag/C08_runtime", "diag", spec=False)
    # implementation against the documented rule, no model: token quoted ends at the reported offset
    nd = 0
    for c, o, m in rs:
        if o is None:
            continue
        src = c["src"]
        log = bytes.fromhex(o["Log"])
        case = dict(src_hex=src.hex(), src=src[-300:].decode("utf8", "replace"))
        for mm in re.finditer(rb"^line (\d+):(\d+): error(?: at (end|'(?:[^\n]|\n(?!line ))*?'))?: ", log, re.M):
            nd += 1
            line, col = int(mm.group(1)), int(mm.group(2))
            pos = offset_of(src, line, col)
            what = mm.group(3)
            if pos is None or pos > len(src) or spec_linecol(src, pos) != (line, col):
                ctx.violation("diagnostic position %d:%d does not designate a source offset by the documented rule" % (line, col),
                              case, impl=log.decode("utf8", "replace")[:400], theorem="linecol_search", key="diag-badpos")
                continue
            if what == b"end":
                if src[pos:].strip(b" \t\v\f\r\n") not in (b"",) and not src[pos:].lstrip().startswith(b"#"):
                    pass     # 'at end' after trailing layout/comments; exact offset is checked through the model
            elif what is not None:
                tok = what[1:-1]
                if src[pos - len(tok):pos] != tok:
                    ctx.violation("quoted token %r is not the source text ending at the reported offset %d (%d:%d)" % (
                        tok[:40], pos, line, col), case, impl=log.decode("utf8", "replace")[:400],
                        theorem="C08_compile_diag", key="diag-token-mismatch")
        if interp.go_class(o) == "runtime":
            m2 = re.match(r"runtime error: line (\d+):(\d+): ", o["Err"])
            if m2:
                pos = offset_of(src, int(m2.group(1)), int(m2.group(2)))
                if pos is None or pos > len(src) or spec_linecol(src, pos) != (int(m2.group(1)), int(m2.group(2))):
                    ctx.violation("runtime error position does not designate a source offset", case, impl=o["Err"],
                                  theorem="C08_runtime", key="rt-badpos")
        # line table = newline offsets of the source
        if o["Parts"]:
            lfs = dict(kv.split("=", 1) for kv in o["Parts"].split(" ") if "=" in kv).get("lfs", "")
            want = ",".join(str(i) for i, b in enumerate(src) if b == 10)
            if lfs != want:
                ctx.violation("line table differs from the newline offsets of the source", case, impl=lfs[:200], model=want[:200],
                              theorem="lfs_is_newlines", key="lfs-differs")
    # the same diagnostics when the input arrives in reads: real 4096-byte pages and small reads, with a multi-byte
    # character straddling the boundary and the diagnostic / runtime error / warning in a later read
    ch_cases = []
    for k, mb in itertools.product(range(0, 4), ["é", "€", "😀", "\u0085"]):
        enc = mb.encode()
        pad = b"# " + b"x" * (4096 - 2 - 1 - k) + enc + b"\n"           # the character starts k+1 bytes before offset 4096
        for bad in [b"print 1 +\n", b"var q = )\nprint 2\n", b"print 1 / 0\n", b"def t {}\nbind t -> struct\nbind t -> struct\n"]:
            body = b"var a = 1\n\n# c " + enc + b"\nprint a\n" * 3 + bad
            ch_cases.append(dict(id="pg%d-%d-%d" % (k, len(enc), len(ch_cases)), name="f.bcl", src_hex=(pad + body).hex(),
                                 partitions=[[], [4096], [4095], [4097], [7], [1]]))
    # the same with the character OUTSIDE comments and strings (an illegal character as a statement, NBSP / NEL as layout):
    # the diagnostic names the character and its position whatever the cut inside it
    for k, mb in itertools.product(range(0, 5), ["😀", "€", "é", "\u00a0", "\u0085", "\U0001F600x"]):
        enc = mb.encode()
        lead = b"# " + b"y" * (4096 - 3 - k) + b"\n"                       # the next line starts k bytes before offset 4096
        for body in [b"print 1 " + enc + b"+ 2\nprint 3 +\n", enc + b"\nprint 4 +\n", b"def b { x = 1 " + enc + b" }\nprint 1/0\n"]:
            ch_cases.append(dict(id="px%d-%d-%d" % (k, len(enc), len(ch_cases)), name="f.bcl", src_hex=(lead + body).hex(),
                                 partitions=[[], [4096], [4095], [4097], [4094], [4093], [3], [1]]))
    cres, cmiss, cerr = ctx.probe("chunks", ch_cases, tag="pages", timeout=3000)
    for c in ch_cases:
        r = cres.get(c["id"])
        if not r:
            continue
        for p in r["parts"]:
            ctx.count(1, casehash(c["src_hex"], json.dumps(p["sizes"])))
            if not p["same"]:
                ctx.violation("diagnostics / positions of ParseFile differ from Parse when the input arrives in reads %s" % p["sizes"],
                              dict(src_hex=c["src_hex"][-400:], sizes=p["sizes"], note="a multi-byte character straddles the 4096-byte page boundary"),
                              impl=p.get("obs"), model=r["whole"], theorem="C08_independent_of_lookahead", key="chunked-diag-differs")
        # and the whole-input diagnostics themselves against the documented rule
        wl = bytes.fromhex(r["whole"]["Log"])
        srcb = bytes.fromhex(c["src_hex"])
        for mm in re.finditer(rb"^(?:WARNING: )?line (\d+):(\d+): ", wl, re.M):
            pos = offset_of(srcb, int(mm.group(1)), int(mm.group(2)))
            if pos is None or spec_linecol(srcb, pos) != (int(mm.group(1)), int(mm.group(2))):
                ctx.violation("position %s:%s is not a source offset by the documented rule" % (mm.group(1).decode(), mm.group(2).decode()),
                              dict(src_hex=c["src_hex"][-300:]), impl=wl.decode("utf8", "replace")[:300], theorem="C08_linecol", key="diag-badpos")
    ctx.suite_stats["diag"]["paged_cases"] = len(ch_cases)
    # lineColAt alone against the model and against the specification, on arbitrary sorted tables
    lc_cases = []
    for i in range(ctx.n(300, 3000)):
        n = rng.choice([0, 1, 2, 3, 10, 50])
        lfs = sorted(rng.sample(range(0, 400), n))
        pos = rng.choice([0, 1, 399, 400, 1000] + lfs + [x + 1 for x in lfs] + [max(0, x - 1) for x in lfs] + [rng.randint(0, 500)])
        lc_cases.append(dict(id="lc%d" % i, lfs=lfs, pos=pos))
    lres, _, _ = ctx.probe("linecol", lc_cases, tag="lc")
    mres = ctx.model([("linecol", c["id"], F(F(*[str(x) for x in c["lfs"]]), str(c["pos"]))) for c in lc_cases])
    for c in lc_cases:
        r = lres.get(c["id"])
        if not r:
            continue
        ctx.count(1, casehash(json.dumps(c["lfs"]), str(c["pos"])))
        line = 1 + sum(1 for x in c["lfs"] if x < c["pos"])
        prev = [x for x in c["lfs"] if x < c["pos"]]
        col = c["pos"] - prev[-1] if prev else c["pos"] + 1
        if r["obs"] != "%d:%d" % (line, col):
            ctx.violation("lineColAt(%s, %d) = %s, documented rule gives %d:%d" % (c["lfs"][:8], c["pos"], r["obs"], line, col),
                          dict(lfs=c["lfs"], pos=c["pos"]), impl=r["obs"], model="%d:%d" % (line, col),
                          theorem="linecol_search", key="linecol-rule")
        if mres.get(c["id"]) != r["obs"]:
            ctx.broken.append(("correspondence", "suite linecol: model vs lineColAt", "%s: model=%s impl=%s" % (c, mres.get(c["id"]), r["obs"])))
    ctx.suite_stats["diag"]["diagnostics_checked_against_rule"] = nd
    ctx.suite_stats["linecol"] = dict(cases=len(lc_cases))
    for c in cases[:2]:
        ctx.sample(c["src"][-200:].decode("utf8", "replace"))
    return ctx.finish("positions are checked against the model and, independently, against the documented line:column rule "
                      "computed from the source text")


# ---------------------------------------------------------------- C19
COMBOS = ["", "d", "t", "s", "dt", "ds", "ts", "dts"]

# operand classes of bytecode 1.1 (opcode.go / disasm.go), for an independent walk over the instruction boundaries
_UV1 = {3, 4, 7, 8, 9, 29}        # SETLOCAL GETLOCAL SETFIELD GETFIELD CONST POPN: one uvarint
_JMP = {25, 26, 27}               # JUMP LOOP JFALSE: u16


def _uvsize(b0):
    return 1 if b0 <= 240 else 2 if b0 <= 248 else b0 - 246


def instr_offsets(code):
    """offsets of the instruction boundaries of a code blob, or None if it does not tile"""
    out, i = [], 0
    while i < len(code):
        out.append(i)
        op = code[i]
        i += 1
        try:
            if op in _UV1:
                i += _uvsize(code[i])
            elif op in _JMP:
                i += 2
            elif op == 5:               # DEFBLOCK: two uvarints
                i += _uvsize(code[i])
                i += _uvsize(code[i])
            elif op == 30:              # BIND: uvarint + byte
                i += _uvsize(code[i]) + 1
        except IndexError:
            return None
    return out if i == len(code) else None


SEQ = ["", "t", "", "ts", "s", "", "W", ""]


def check_C19(ctx):
    ctx.build(["Proofs/TieFormat.vo", "Proofs/TieVm.vo", "Proofs/TieGlobals.vo", "Properties/C19.vo"], "Properties/C19.v")
    rng = random.Random(ctx.seed * 19013 + 19)
    g = Gen(rng, max_depth=3, allow_errors=0.02, small_floats=True)   # trace prints every stack value at every step
    progs = [g.program() for _ in range(ctx.n(120, 1200))]
    progs += [blocks_program(rng, with_bind=True) for _ in range(ctx.n(40, 400))]
    progs += [b"print 1 +\n", b"print 1/0\n", b"", b"var a = 1 and 2 or 3\nprint a\n", b"def t {}\nbind t -> struct\nbind t:all -> slice\n",
              b"print " + b"1+(" * 200 + b"1" + b")" * 200 + b"\n", b"".join(b"var v%d = %d\n" % (i, i) for i in range(300)) + b"print v299\n",
              b'def a "n" { x = "' + b"s" * 300 + b'"\n print x }\n',
              b"def t {}\ndef t {}\nbind t:first -> struct\nbind t:last -> struct\nbind t:all -> slice\nbind t:first -> slice\nprint 1\n"]
    cases = []
    for i, p in enumerate(progs):
        for o in COMBOS:
            cases.append(dict(id="o%d/%s" % (i, o), src=p, opts=o, name=rng.choice(["input", "", "f.bcl"]) if False else "input"))
        cases[-len(COMBOS)]["seq"] = SEQ       # the plain case also executes ONE Prog under a sequence of option sets
    # the instruction that overflows the operand stack is traced AND counted (implementation only: a trace of a full stack is
    # a megabyte of text per run, so these are not run on the model)
    heavy = [dict(id="hv%d" % k, src_hex=h.hex(), opts="ts", name="input") for k, h in enumerate([
        b"".join(b"var v%d = 1\n" % i for i in range(1024)) + b"print 1\n",
        b"".join(b"var v%d = 1\n" % i for i in range(1023)) + b"print 1 + 1\n"])]
    hres, _, _ = ctx.probe("interp", heavy, tag="heavy")
    for c in heavy:
        r = hres.get(c["id"])
        if r:
            ctx.count(1, c["id"])
            out = bytes.fromhex(r["obs"]["Out"])
            mm = re.search(rb"xstats.opsRead:\s+(\d+)", out)
            ntrace = len(re.findall(rb"^             \d+: ", out, re.M))
            if mm and int(mm.group(1)) != ntrace:
                ctx.violation("trace lists %d instructions, statistics report %s (a program that ends in stack overflow)" % (ntrace, mm.group(1).decode()),
                              dict(src="1024 / 1023 variables, then a push", opts="ts"), impl=r["obs"]["Err"], theorem="C19_trace_count", key="trace-count-overflow")
    # a writer on which every write fails: results must not depend on which introspection options are on
    fcases = []
    for i, p in enumerate(interp.drop_excluded(ctx, progs[:ctx.n(40, 400)] + progs[-8:])):
        for o in ("F", "Fs", "Fd", "Ft", "Fdts"):
            fcases.append(dict(id="fw%d/%s" % (i, o), src_hex=p.hex(), opts=o, name="input"))
    fres, fmiss, ferr = ctx.probe("interp", fcases, tag="failw")
    fby = {}
    for c in fcases:
        r = fres.get(c["id"])
        if r:
            fby.setdefault(c["id"].split("/")[0], {})[c["opts"]] = (c, r["obs"])
    for k, d in fby.items():
        if "F" not in d:
            continue
        b = d["F"][1]
        for o, (c, ob) in d.items():
            ctx.count(1, casehash(c["src_hex"], o))
            if (ob["Class"], ob["Err"], ob["Blocks"], ob["Binding"], ob["Log"]) != (b["Class"], b["Err"], b["Blocks"], b["Binding"], b["Log"]):
                ctx.violation("with an output writer that fails, options %r change the result / error of the run" % o[1:],
                              dict(src_hex=c["src_hex"], src=bytes.fromhex(c["src_hex"])[:300].decode("utf8", "replace"), opts=o[1:]),
                              impl=ob, model=b, theorem="C19_results_equal", key="opts-failing-writer")
                break
    rs, missing, err = interp.run(ctx, cases)
    decide(ctx, rs, missing, err, {"outws", "blocks", "binding", "err", "log"}, "C19_results_equal", "opts", spec=False)
    by = {}
    for c, o, m in rs:
        if o is not None:
            by[c["id"]] = (c, o)
    for i, p in enumerate(progs):
        base = by.get("o%d/" % i)
        if not base:
            continue
        b = base[1]
        plain = None
        for st in b.get("_seq") or []:
            # an introspecting execution leaves nothing behind: every plain execution of the same Prog, before and
            # after traced ones, equals the plain run of a freshly parsed one
            ctx.count(1)
            if st["opts"] == "":
                got = (st["class"], st.get("err", ""), st["out"], st["blocks"], st["binding"])
                want = (b["Class"] if b["Class"] != "err" else "ok", b["Err"], b["Out"], b["Blocks"], b["Binding"])
                if got != want:
                    ctx.violation("a plain execution of a Prog that was also executed with introspection options differs from the plain "
                                  "run of a fresh Prog", dict(src_hex=p.hex(), src=p[:300].decode("utf8", "replace"), sequence=SEQ),
                                  impl=st, model=dict(zip(("class", "err", "out", "blocks", "binding"), want)),
                                  theorem="C19_results_equal", key="opts-leave-state")
                    break
        for oname in COMBOS[1:]:
            x = by.get("o%d/%s" % (i, oname))
            if not x:
                continue
            c, o = x
            b = base[1]
            ctx.count(1, casehash(p, oname))
            case = dict(src_hex=p.hex(), src=p[:300].decode("utf8", "replace"), opts=oname)
            if (o["Class"], o["Err"], o["Blocks"], o["Binding"], o["Log"], o["Parts"]) != (
                    b["Class"], b["Err"], b["Blocks"], b["Binding"], b["Log"], b["Parts"]):
                ctx.violation("options %r changed blocks / binding / error / diagnostics / compiled program" % oname, case,
                              impl=o, model=b, theorem="C19_results_equal", key="opts-change-results")
            # the program's own lines survive in order
            plain = bytes.fromhex(b["Out"]).split(b"\n")
            full = bytes.fromhex(o["Out"]).split(b"\n")
            it = iter(full)
            if not all(any(l == x for x in it) for l in plain):
                ctx.violation("lines printed by the program are not preserved under options %r" % oname, case, impl=o, model=b,
                              theorem="C19_print_lines", key="opts-change-output")
            if "d" in oname and interp.go_class(o) != "parse" and o["Parts"]:
                # the disassembly (the part before any trace line) lists every instruction once, at its offset, in order
                code = bytes.fromhex(dict(kv.split("=", 1) for kv in o["Parts"].split(" ") if "=" in kv).get("code", ""))
                want = instr_offsets(code)
                out = bytes.fromhex(o["Out"])
                head = out.split(b"             0: ")[0] if "t" in oname else out
                got = [int(x) for x in re.findall(rb"^(\d{4,}) ", head, re.M)]
                if want is not None and got[:len(want)] != want:
                    ctx.violation("the disassembly does not list each instruction exactly once at its offset", case,
                                  impl=dict(listed=got[:40], boundaries=want[:40]), theorem="C19_disasm_tiles", key="disasm-offsets")
            if "t" in oname and "s" in oname and o["Class"] in ("ok", "err") and interp.go_class(o) != "parse":
                out = bytes.fromhex(o["Out"])
                mm = re.search(rb"xstats.opsRead:\s+(\d+)", out)
                ntrace = len(re.findall(rb"^             \d+: ", out, re.M))
                if mm and int(mm.group(1)) != ntrace:
                    ctx.violation("trace lists %d instructions, statistics report %s" % (ntrace, mm.group(1)), case, impl=o,
                                  theorem="C19_trace_count", key="trace-count")
    # the command-line tool: -d / -t / -s leave the program's own lines on stdout, the exit status and the error alone
    from .core import sh, BUILD, REPO, GOENV, WORK
    rcb, outb, _ = sh(["go", "build", "-o", os.path.join(BUILD, "bcl"), "./cmd/bcl"], cwd=REPO, env=GOENV, timeout=600)
    if rcb == 0:
        clis = []
        cprogs = {"ok": b'var x = 1\ndef t "n" { f = x + 1\n print "in block" }\nbind t -> struct\nprint x\nprint "done"\n',
                  "rt": b'print "before"\nprint 1/0\n', "pe": b"print 1 +\n"}
        for pn, src in cprogs.items():
            for fl in ([], ["-s"], ["-d"], ["-t"], ["-d", "-s"], ["-t", "-s"], ["-dts"]):
                clis.append(dict(id="cl-%s-%s" % (pn, "".join(fl)), argv=fl + ["in.bcl"], stdin_hex="", files={"in.bcl": src.hex()}))
        env = dict(os.environ, VERIF_BCL_BIN=os.path.join(BUILD, "bcl"), VERIF_WORK=WORK)
        rcc, outc, _ = sh([os.path.join(BUILD, "bclprobe"), "cli"], input="".join(json.dumps(c) + "\n" for c in clis).encode(), env=env, timeout=600)
        cres = {}
        for line in outc.splitlines():
            if line.startswith("{"):
                r = json.loads(line)
                cres[r["id"]] = r["real"]
        for pn in cprogs:
            base = cres.get("cl-%s-" % pn)
            if not base:
                continue
            plain = bytes.fromhex(base["stdout"]).split(b"\n")
            for cid, r in cres.items():
                if not cid.startswith("cl-%s-" % pn) or cid == "cl-%s-" % pn:
                    continue
                ctx.count(1, cid)
                it = iter(bytes.fromhex(r["stdout"]).split(b"\n"))
                if r["status"] != base["status"] or not all(any(l == x for x in it) for l in plain):
                    ctx.violation("the command-line tool with %s: the program's own lines are not on stdout in order, or the exit status changed" % cid.split("-", 2)[2],
                                  dict(program=cprogs[pn].decode(), flags=cid.split("-", 2)[2]),
                                  impl=dict(status=r["status"], stdout=bytes.fromhex(r["stdout"]).decode("utf8", "replace")[:400],
                                            stderr=bytes.fromhex(r["stderr"]).decode("utf8", "replace")[:300]),
                                  model=dict(status=base["status"], stdout=bytes.fromhex(base["stdout"]).decode("utf8", "replace")),
                                  theorem="C19_print_lines", key="cli-opts")
        ctx.suite_stats["opts"]["cli_runs"] = len(cres)
    ctx.suite_stats["opts"]["programs"] = len(progs)
    ctx.suite_stats["opts"]["combinations"] = 8
    ctx.sample(dict(program=progs[0].decode("utf8", "replace")[:200], opts=COMBOS))
    return ctx.finish("all eight option combinations of every program; whole output text compared with the model's tagged lines")


# ---------------------------------------------------------------- C06
def limit_programs(thorough):
    out = []
    for d in [1021, 1022, 1023, 1024, 1025, 1026, 2000]:
        out.append(("depth%d" % d, b"print " + b"1+(" * d + b"1" + b")" * d + b"\n"))
        out.append(("unary%d" % d, b"print " + b"- " * d + b"1\n"))
    for n in [1022, 1023, 1024, 1025, 1030]:
        decl = b"".join(b"var v%d\n" % i for i in range(n))
        out.append(("locals%d" % n, decl + b"print 1\n"))
        out.append(("locals%d+e" % n, decl + b"print 1+1\n"))
        out.append(("locals%d+b" % n, decl + b"def b { x = v0 }\n"))
    for n in [15, 16, 17, 18, 40, 5000 if thorough else 300]:
        out.append(("nest%d" % n, b"def a {" * n + b"}" * n + b"\n"))
    for n in [65533, 65534, 65535, 65536, 65537, 70000]:
        # right operand of `and` compiled to exactly n-ish bytes: POP + k * (ONE ADD ...)
        k = (n - 2) // 2
        out.append(("jump%d" % n, b"print 0 and 1" + b"+1" * k + b"\n"))
        out.append(("jumpor%d" % n, b"print 1 or 1" + b"+1" * k + b"\n"))
    for lit in [b"9223372036854775807", b"9223372036854775808", b"0x7fffffffffffffff", b"0x8000000000000000", b"0777777777777777777777",
                b"01000000000000000000000", b"08", b"0x", b"1e308", b"1e309", b"1.7976931348623157e308", b"1.7976931348623159e308",
                b"1e-400", b"0." + b"0" * 400 + b"1", b"1" + b"0" * 400 + b".0", b"1e99999999999", b"1e-99999999999",
                b'"\\q"', b'"\\x4"', b'"\\400"', b'"\\ud800"', b'"\\U00110000"', b"'a'", b'"\\\'"', b'"\xff"', b'"\\xff"']:
        out.append(("lit", b"print " + lit + b"\n"))
        out.append(("litname", b"def b " + lit + b" {}\n"))
    for e in [b'"ab" * -1', b'"ab" * 0', b'"ab" * 1000', b'"" * 9223372036854775807', b'"ab" * 524289', b'"abcdefgh" * 131073',
              b'"ab" * 524288' if thorough else b'"ab" * 5000',
              b"-9223372036854775807 - 1", b"(-9223372036854775807 - 1) / -1", b"(-9223372036854775807 - 1) * -1", b"1 / 0", b"1.0 / 0",
              b"0.0 / 0.0", b"1 / 0.0", b"-(0.0)", b"9223372036854775807 + 1", b"1e308 * 10", b"nil + 1", b'1 + "a"']:
        out.append(("op", b"print " + e + b"\n"))
    for sel in (b"", b":1", b":first", b":last", b":all"):
        for tgt in (b"struct", b"slice"):
            out.append(("bindnone", b"bind nosuch" + sel + b" -> " + tgt + b"\n"))
            out.append(("bindnone2", b"def other {}\nbind nosuch" + sel + b" -> " + tgt + b"\nprint 1\n"))
            out.append(("bindin", b"def t {}\ndef w { bind t" + sel + b" -> " + tgt + b" }\n"))
    for stray in (b"}", b"def a {} }", b"print 1 } print 2", b"} } }", b"def a { } } def b {", b")", b"print 1 ) print 2", b"var x = 1 }\nprint x\n"):
        out.append(("stray", stray + b"\n"))
    out.append(("blockeq", b"def a { def b {}\n print b == b\n print b != b\n print b == 1 }\n"))
    out.append(("blockops", b"def a { def b {}\n x = b\n print x\n print not b\n print b and 1\n print b or 1 }\n"))
    out.append(("blockadd", b"def a { def b {}\n print \"s\" + b }\n"))
    out.append(("blockneg", b"def a { def b {}\n print -b }\n"))
    return out


def check_C06(ctx):
    ctx.build(["Proofs/TieVm.vo", "Proofs/TieParse.vo", "Properties/C06.vo"], "Properties/C06.v")
    rng = random.Random(ctx.seed * 6007 + 6)
    g = Gen(rng, max_depth=3, allow_errors=0.05)
    srcs = [(k, s) for k, s in limit_programs(ctx.thorough)]
    for _ in range(ctx.n(300, 3000)):
        srcs.append(("bytes", bytes(rng.randrange(256) for _ in range(rng.randint(0, 60)))))
    for _ in range(ctx.n(300, 3000)):
        srcs.append(("soup", lex_soup(rng, rng.randint(1, 60), bad_rate=rng.choice([0, 0.05, 0.3]))))
    for _ in range(ctx.n(200, 2000)):
        p = bytearray(g.program())
        if p:
            for _ in range(rng.randint(1, 3)):
                if not p:
                    break
                i = rng.randrange(len(p))
                k = rng.random()
                if k < 0.4:
                    p[i] = rng.randrange(256)
                elif k < 0.7:
                    del p[i]
                else:
                    p.insert(i, rng.choice(b"\"\\(){}=!\n#\xff\xc2"))
        srcs.append(("damage", bytes(p)))
    cases = [dict(id="r%d" % i, src=s, kind=k) for i, (k, s) in enumerate(srcs)]
    rs, missing, err = interp.run(ctx, cases)
    kinds = {}
    for cid in missing[:3]:
        ctx.violation("the probe process died (panic in a goroutine, or out of memory)", dict(id=cid, log=(err or "")[-1500:]),
                      key="probe-crash", theorem="C06_no_panic")
    ndis = 0
    for c, o, m in rs:
        if o is None:
            continue
        gc = interp.go_class(o)
        kinds[(c["kind"], gc)] = kinds.get((c["kind"], gc), 0) + 1
        ctx.count(1, casehash(c["src"]))
        case = dict(src_hex=c["src"][:4000].hex(), src_len=len(c["src"]), kind=c["kind"], src=c["src"][:200].decode("utf8", "replace"))
        if gc in ("panic", "hang"):
            ctx.violation("Interpret %s: %s" % (gc, o["Err"][:200]), case, impl=o["Err"][:1000], model=m.get("class"),
                          theorem="C06_no_panic", key="interpret-" + gc)
            continue
        mc = m.get("class", "?")
        if mc in ("modelfail",) or mc.startswith("panic:"):
            ctx.broken.append(("correspondence", "suite robust: the model predicts %s where the implementation returns %s" % (mc, gc),
                               "case %s" % case["src"][:120]))
            continue
        if mc != gc:
            ndis += 1
            ctx.violation("outcome class differs from the model: implementation %s, model %s" % (gc, mc), case, impl=o, model=m,
                          theorem="C06_no_panic", key="robust-class")
    # the file variants: same inputs through ParseFile in 1- and 7-byte reads (a goroutine panic kills the probe)
    fcases = [dict(id=c["id"], name="f", src_hex=c["src"].hex(), partitions=[[7], [4096]]) for c in cases
              if len(c["src"]) < 3000 and c["kind"] in ("lit", "litname", "bytes", "soup", "damage")]
    fres, fmissing, ferr = ctx.probe("chunks", fcases, tag="file", timeout=3000)
    for cid in fmissing[:3]:
        src = next(c["src"] for c in cases if c["id"] == cid)
        ctx.violation("ParseFile killed the process (panic in a goroutine)", dict(src_hex=src.hex(), log=(ferr or "")[-1500:]),
                      key="parsefile-crash", theorem="C06_no_panic")
    for c in fcases:
        r = fres.get(c["id"])
        if not r:
            continue
        for p in r["parts"]:
            ctx.count(1, casehash(c["src_hex"], "file", json.dumps(p["sizes"])))
            if p["class"] in ("panic", "hang"):
                ctx.violation("ParseFile %s" % p["class"], dict(src_hex=c["src_hex"], sizes=p["sizes"]), impl=p,
                              theorem="C06_no_panic", key="parsefile-" + p["class"])
    # Unmarshal: nested blocks and scalars onto fields of every awkward kind (the error must be an error, never a panic)
    from .p_bind import fld, INT, STR
    T = lambda *fs: dict(k="struct", fields=list(fs))
    odd = T(fld("Name", STR), fld("Opts", dict(k="slice", elem=STR)), fld("M", dict(k="map")), fld("P", dict(k="ptr", elem=dict(k="named", name="Inner"))),
            fld("Int", INT), fld("Any", dict(k="iface")), fld("E", dict(k="ifaceN")), fld("Inner", dict(k="named", name="Inner"), emb=True))
    oddp = T(fld("Name", STR), fld("Inner", dict(k="ptr", elem=dict(k="named", name="Inner")), emb=True), fld("Port", INT))
    ucases = []
    for k, body in enumerate([b"deep = 1", b"shared = \"s\"", b"def inner { deep = 1 }", b"port = 1\n deep = 2"]):
        for bind in (b"bind t -> struct", b"bind t:all -> slice"):
            src = b"def t \"x\" {\n " + body + b"\n}\n" + bind + b"\n"
            ucases.append(dict(id="up%d%s" % (k, "s" if b"slice" in bind else ""), type=(dict(k="slice", elem=oddp) if b"slice" in bind else oddp),
                               src_hex=src.hex(), prev=0))
    for k, body in enumerate([b"def opts { a = 1 }", b"def m { a = 1 }", b"def p { deep = 1 }", b"def int { }", b"def any { x = 1 }", b"def e { }",
                              b"def inner { deep = 2 }", b"opts = 1", b"m = nil", b"p = \"s\"", b"int = 1.5", b"deep = \"x\"", b"name = 5",
                              b"def name { }", b"def opts \"n\" { }\n def opts \"m\" { }"]):
        for bind in (b"bind t -> struct", b"bind t:all -> slice"):
            src = b"def t \"x\" {\n " + body + b"\n}\n" + bind + b"\n"
            ucases.append(dict(id="um%d%s" % (k, "s" if b"slice" in bind else ""), type=(dict(k="slice", elem=odd) if b"slice" in bind else odd),
                               src_hex=src.hex(), prev=2))
    ures, umissing, uerr = ctx.probe("unmarshal", ucases)
    for cid in umissing[:2]:
        ctx.violation("Unmarshal ended the probe process", dict(case=ctx.case_by_id.get(cid)), key="unmarshal-crash", theorem="C06_no_panic")
    for c in ucases:
        r = ures.get(c["id"])
        if r:
            ctx.count(1, casehash(c["src_hex"], json.dumps(c["type"], sort_keys=True)))
            if r["class"] in ("panic", "hang"):
                ctx.violation("Unmarshal %s: %s" % (r["class"], r.get("panic", "")[:200]), dict(src=bytes.fromhex(c["src_hex"]).decode(), type=c["type"]),
                              impl=r, theorem="C06_no_panic", key="unmarshal-" + r["class"])
    ctx.suite_stats["robust"] = dict(cases=len(cases), file_cases=len(fcases), class_disagreements=ndis, unmarshal_cases=len(ucases),
                                     kinds={"%s/%s" % k: v for k, v in sorted(kinds.items())})
    ctx.traces += len(rs) - ndis
    for k, s in srcs[:2] + srcs[-2:]:
        ctx.sample(dict(kind=k, src=s[:80].decode("latin1")))
    return ctx.finish("outcome classes {ok, parse error, runtime error, panic, hang}; inputs the property excludes (repetition "
                      "beyond 2^20 bytes) are recognised by the model and not run")


# ---------------------------------------------------------------- C10
def check_C10(ctx):
    from .p_dumpload import parse_parts
    conc_progs = [b"".join(b"var v%d_%d = %d\n" % (k, i, i) for i in range(24)) + b"def b%d { x = v%d_3 + v%d_20\n var w = x\n y = w }\nprint v%d_23\n" % (k, k, k, k)
                  for k in range(8)]
    ctx.build(["Proofs/TieVm.vo", "Proofs/TieFormat.vo", "Proofs/TieParse.vo", "Properties/C10.vo"], "Properties/C10.v")
    rng = random.Random(ctx.seed * 10007 + 10)
    g = Gen(rng, max_depth=5, allow_errors=0.02, small_floats=True)
    srcs = [g.program() for _ in range(ctx.n(400, 4000))]
    srcs += [blocks_program(rng, with_bind=True) for _ in range(ctx.n(100, 1000))]
    srcs += [scope_program(rng, 6, bad=0.0) for _ in range(ctx.n(100, 1000))]
    # a literal-false / literal-true left operand whose dead right operand mentions names for the first time
    srcs += [b"def b { y = false and (zz = 1)\n zz = 2\n print zz }\n", b"def b { y = true or nm\n nm = 42\n print nm }\n",
             b"def b { a = 1\n y = false and q1\n def q1 { }\n z = true or q2\n q2 = \"s\" }\nbind b -> struct\n",
             b"def b { y = false and (k1 + k2 + \"lit\" + 7.5)\n k2 = 1\n k1 = 2\n print k1 + k2\n s = \"lit\" }\n",
             b"var t = true\ndef b { y = t or nm2\n nm2 = 42 }\n", b"def b { y = false and (def_ = 1) or (w = 2)\n def_ = 3\n print w }\n"]
    # long short-circuit chains, operands longer than 240 and (thorough) 65535 bytes of code, nesting, many locals
    for n in [1, 2, 10, 100, 1000]:
        srcs.append(b"print 1" + b" and 1" * n + b"\n")
        srcs.append(b"print 0" + b" or 0" * n + b" or 7\n")
        srcs.append(b"print " + b"(1 and 0 or " * n + b"2" + b")" * n + b"\n")
        srcs.append(b"print 1 and (1" + b"+1" * (n * 10) + b") or (2" + b"*2" * (n * 10) + b")\n")
    for n in [1, 5, 16]:
        srcs.append(b"def a {" * n + b" x = 1 and 2 or 3\n var v = x\n" + b"}" * n + b"\n")
    srcs.append(b"".join(b"var v%d = %d and v%d or %d\n" % (i, i, max(i - 1, 0), i) for i in range(1, 300)) + b"print v299\n")
    srcs.append(b"def t { " + b" ".join(b"f%d = %d" % (i, i) for i in range(300)) + b" }\nbind t -> struct\n")
    # jump distances around the 16-bit limit, both branches taken: the skipped operand must be skipped exactly
    for n in [32766, 32767, 32768, 32769, 40000]:
        big = b"(1" + b"+1" * n + b")"
        srcs += [b"print false and " + big + b"\n", b"print true and " + big + b"\n", b"print 7 or " + big + b"\n"]
    for n in [10, 26, 27, 28, 29, 30, 31, 40, 241, 242]:
        srcs.append(b"".join(b"var v%d = %d\n" % (i, i + 2) for i in range(n)))
        srcs.append(b"def b {\n" + b"".join(b"var v%d = %d\n" % (i, i + 2) for i in range(n)) + b"}\n")
    cases = [dict(id="w%d" % i, src=s) for i, s in enumerate(srcs)]
    rs, missing, err = interp.run(ctx, cases)
    decide(ctx, rs, missing, err, {"parts"}, "C10_wellformed", "wf")
    items = []
    accepted = []
    for c, o, m in rs:
        if o is None or not o["Parts"]:
            continue
        accepted.append((c, o))
        items.append(("verify", c["id"], parse_parts(o["Parts"])))
        if o["Err"].startswith("internal error"):
            ctx.violation("executing a compiled program ended in the internal error: %s" % o["Err"], dict(src_hex=c["src"].hex()),
                          impl=o["Err"], theorem="C10_check_sound", key="internal-error")
    # corrupted code must be rejected (the verifier is not vacuous): single-byte damage of accepted code
    mut = []
    for c, o in accepted[:ctx.n(150, 1500)]:
        d = dict(kv.split("=", 1) for kv in o["Parts"].split(" ") if "=" in kv)
        code = bytearray(bytes.fromhex(d["code"]))
        if len(code) < 3:
            continue
        i = rng.randrange(len(code))
        code[i] = (code[i] + rng.randint(1, 255)) % 256
        parts = "name=%s code=%s consts=%s pos=%s lfs=%s" % (d["name"], bytes(code).hex(), d["consts"], d["pos"], d["lfs"])
        mut.append(("verify", "m" + c["id"], parse_parts(parts)))
    vres = ctx.model(items + mut, timeout=3000)
    nver = 0
    for c, o in accepted:
        ctx.count(1, casehash(c["src"], "verify"))
        if vres.get(c["id"]) != "verified":
            ctx.violation("the bytecode verifier rejects code emitted by the compiler: some path is not well-formed",
                          dict(src_hex=c["src"].hex(), src=c["src"][:300].decode("utf8", "replace"), parts=o["Parts"][:600]),
                          impl=o["Parts"][:300], model=vres.get(c["id"]), theorem="C10_wellformed", key="verify-rejects")
        else:
            nver += 1
    rejected = sum(1 for s, i, p in mut if vres.get(i) == "REJECTED")
    # the compiler's bookkeeping is per parse: programs parsed concurrently compile to what they compile to alone
    cres, cmissing, cerr = ctx.probe("concurrent", [dict(id="cc%d" % k, progs=[p.hex() for p in conc_progs], n=6) for k in range(ctx.n(3, 12))], tag="conc")
    for cid in cmissing[:1]:
        ctx.violation("concurrent parses ended the probe process", dict(progs=[p.decode()[:80] for p in conc_progs[:2]]), key="conc-crash", theorem="C10_parsed_verifies")
    for r in cres.values():
        ctx.count(len(conc_progs) * 6, r["id"])
        if r["a_class"] != "ok" or r["a_diff"]:
            ctx.violation("programs parsed concurrently differ from the same programs parsed alone (code, output or error): %s %s, %d differing runs" % (
                r["a_class"], r.get("a_panic", "")[:200], r["a_diff"]), dict(progs=[p.decode()[:120] for p in conc_progs[:2]], goroutines=6 * len(conc_progs)),
                impl=r, theorem="C10_parsed_verifies", key="conc-parse")
    ctx.suite_stats["wf"]["verified_programs"] = nver
    ctx.suite_stats["wf"]["damaged_code_rejected"] = "%d of %d" % (rejected, len(mut))
    ctx.traces += nver
    ctx.sample(dict(program=srcs[0][:200].decode("utf8", "replace")))
    return ctx.finish("certificate checking: verify is run on the code the REAL compiler produced (read through the verif-tagged hook); "
                      "a pass is, by check_sound, a proof of the property for that program including the operands a run skips")
