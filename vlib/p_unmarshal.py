"""C05: Unmarshal reproduces configuration values in Go structs (write as BCL text, unmarshal, compare)."""
import json, random, struct
from .core import F, casehash
from . import interp
from .p_bind import gen_struct, block_for, NAMED, enc_type, model_item, named_target, spell


def q(b):
    """a BCL string literal denoting exactly the bytes b"""
    out = bytearray(b'"')
    i = 0
    while i < len(b):
        c = b[i]
        if c == 0x22:
            out += b'\\"'
        elif c == 0x5c:
            out += b"\\\\"
        elif 0x20 <= c < 0x7f:
            out.append(c)
        elif c >= 0x80:
            # keep valid UTF-8 sequences raw, escape stray bytes
            for n in (4, 3, 2):
                try:
                    b[i:i + n].decode("utf8")
                    if len(b[i:i + n]) == n and len(b[i:i + n].decode("utf8")) == 1:
                        out += b[i:i + n]
                        i += n - 1
                        break
                except UnicodeDecodeError:
                    continue
            else:
                out += b"\\x%02x" % c
        else:
            out += {9: b"\\t", 10: b"\\n", 13: b"\\r"}.get(c, b"\\x%02x" % c)
        i += 1
    out += b'"'
    return bytes(out)


def lit(v):
    if v[0] == "i":
        n = int(v[1:])
        if n == -2**63:
            return b"(-9223372036854775807 - 1)"
        return str(n).encode()
    if v[0] == "f":
        x = struct.unpack(">d", struct.pack(">Q", int(v[1:])))[0]
        s = repr(abs(x))
        if "e" in s and "." not in s.split("e")[0]:
            pass
        neg = (int(v[1:]) >> 63) == 1
        if "." not in s and "e" not in s:
            s += ".0"
        return (b"-" if neg else b"") + s.encode()
    if v[0] == "s":
        return q(bytes.fromhex(v[1:]))
    if v[0] == "b":
        return b"true" if v == "b1" else b"false"
    return b"nil"


def render_block(b, ind=0):
    pad = b"  " * ind
    out = [pad + b"def " + b["t"].encode() + ((b" " + q(b["n"].encode())) if b["n"] else b"") + b" {"]
    for k, v in b["f"]:
        if isinstance(v, dict):
            out.append(render_block(v, ind + 1))
        else:
            out.append(pad + b"  " + k.encode() + b" = " + lit(v))
    out.append(pad + b"}")
    return b"\n".join(out)


def canon_block(b):
    fs = sorted(b["f"], key=lambda kv: kv[0].encode())
    parts = []
    for k, v in fs:
        parts.append(k.encode().hex() + "=" + ("B" + canon_block(v) if isinstance(v, dict) else v))
    return "{" + b["t"].encode().hex() + ":" + b["n"].encode().hex() + "".join(" " + p for p in parts) + "}"


def fix_keys(b):
    """nested blocks live under the key type or type.name: make the field list consistent with that"""
    fs = []
    for k, v in b["f"]:
        if isinstance(v, dict):
            fix_keys(v)
            k = v["t"] + ("." + v["n"] if v["n"] else "")
        fs.append([k, v])
    b["f"] = fs


def check_C05(ctx):
    ctx.build(["Properties/C05.vo"], "Properties/C05.v")
    rng = random.Random(ctx.seed * 5003 + 5)
    cases = []
    for i in range(ctx.n(500, 5000)):
        if rng.random() < 0.25:
            ty, tname = named_target(rng)
            btype = spell(rng, tname).strip("_") or tname
        else:
            ty, btype = gen_struct(rng, 3, family_only=True), rng.choice(["tunnel", "x", "db", "my_type"])
        if not btype[0].isalpha():
            btype = "t" + btype
        slice_ = rng.random() < 0.35
        nb = rng.randint(0, 4) if slice_ else 1
        blocks = []
        for _ in range(nb):
            b = block_for(rng, ty, btype, 0.0)
            b["t"] = btype
            fix_keys(b)
            blocks.append(b)
        # identifiers must not be keywords or start with a digit after spelling
        ok = all(not _bad_ident(k) for b in blocks for k in _idents(b))
        if not ok or (slice_ and nb == 0):
            continue
        src = b"\n".join(render_block(b) for b in blocks) + b"\nbind " + btype.encode() + (b":all -> slice\n" if slice_ else b" -> struct\n")
        cases.append(dict(id="u%d" % i, type=dict(k="slice", elem=ty) if slice_ else ty, mode="ptr", bkind="slice" if slice_ else "struct",
                          blocks=blocks, src=src, prev=rng.choice([0, 3]), prefill=rng.random() < 0.4))
    # hand-written shapes: the same key at several nesting levels (outer scalar before and after the nested block), every
    # admitted spelling, names needing escapes
    from .p_bind import fld, INT, STR, BOOL, FLT
    T = lambda *fs: dict(k="struct", fields=list(fs))
    deep = T(fld("Name", STR), fld("Port", INT), fld("Limits", T(fld("Name", STR), fld("Port", INT), fld("On", BOOL))),
             fld("Extra", T(fld("Port", INT), fld("Depth", T(fld("Port", INT))))), fld("Label", STR))
    for k, order in enumerate([("port", "limits", "extra", "label"), ("limits", "port", "label", "extra"), ("extra", "label", "limits", "port")]):
        parts = dict(port=["port", "i8080"], label=["label", "s6f75746572"],
                     limits=["limits.inner", dict(t="limits", n="inner", f=[["port", "i9090"], ["on", "b1"]])],
                     extra=["extra", dict(t="extra", n="", f=[["port", "i1"], ["depth", dict(t="depth", n="", f=[["port", "i2"]])]])])
        blk = dict(t="srv", n='C:\\temp "q"', f=[parts[x] for x in order])
        for slice_ in (False, True):
            blocks = [blk] if not slice_ else [blk, dict(t="srv", n="", f=[["PORT", "i-5"], ["La_bel", "s"]])]
            src = b"\n".join(render_block(b) for b in blocks) + b"\nbind srv" + (b":all -> slice\n" if slice_ else b" -> struct\n")
            cases.append(dict(id="deep%d%s" % (k, "s" if slice_ else ""), type=dict(k="slice", elem=deep) if slice_ else deep, mode="ptr",
                              bkind="slice" if slice_ else "struct", blocks=blocks, src=src, prev=3, prefill=(k == 1)))
    # a nested NAMED struct type must match the nested block's type too; nested block names containing dots
    mism = T(fld("Name", STR), fld("Port", INT), fld("Limits", dict(k="named", name="Other")))
    okn = T(fld("Name", STR), fld("Up", T(fld("Name", STR), fld("X", INT))))
    for k, (ty, blk) in enumerate([
            (mism, dict(t="srv", n="alpha", f=[["port", "i8080"], ["limits.hard", dict(t="limits", n="hard", f=[["solo", "b1"]])]])),
            (okn, dict(t="srv", n="a", f=[["up.db.example.com", dict(t="up", n="db.example.com", f=[["x", "i1"]])]])),
            (okn, dict(t="srv", n="b", f=[["up.v1.2", dict(t="up", n="v1.2", f=[["x", "i2"]])]])),
            (okn, dict(t="srv", n="c", f=[["up..hidden", dict(t="up", n=".hidden", f=[["x", "i3"]])]]))]):
        src = render_block(blk) + b"\nbind srv -> struct\n"
        cases.append(dict(id="nest%d" % k, type=ty, mode="ptr", bkind="struct", blocks=[blk], src=src, prev=0, prefill=False))
    # tags must match exactly while names match folded: a tag that folds onto another field's name, in every spelling
    tagged = T(fld("Name", STR), fld("Addr", STR, tag="host_name"), fld("HostName", STR), fld("Backup", STR), fld("Primary", STR, tag="Backup"),
               fld("Max_Conns", INT, tag="max"), fld("Max", INT))
    for k, keys in enumerate([("host_name", "hostname"), ("host_name", "HOST_NAME"), ("host_name", "hostName"), ("host_name", "Host_Name"),
                              ("Backup", "backup"), ("Backup", "BACKUP"), ("max", "Max"), ("max", "MAX"), ("max", "m_ax")]):
        strv = not keys[0].startswith("m")
        blk = dict(t="cfg", n="c%d" % k, f=[[keys[0], "s7461676765642d%02x" % k if strv else "i%d" % (100 + k)],
                                              [keys[1], "s6e616d65642d%02x" % k if strv else "i%d" % (200 + k)]])
        for slice_ in (False, True):
            blocks = [blk] if not slice_ else [blk, dict(t="cfg", n="", f=[[keys[1], "s78" if strv else "i1"]])]
            src = b"\n".join(render_block(b) for b in blocks) + b"\nbind cfg" + (b":all -> slice\n" if slice_ else b" -> struct\n")
            cases.append(dict(id="tag%d%s" % (k, "s" if slice_ else ""), type=dict(k="slice", elem=tagged) if slice_ else tagged, mode="ptr",
                              bkind="slice" if slice_ else "struct", blocks=blocks, src=src, prev=0, prefill=False))
    # 1. Bind of the blocks themselves (reference), 2. Unmarshal of the text, 3. the model's reading of the text
    bres, _, _ = ctx.probe("bind", [dict(id=c["id"], type=c["type"], mode="ptr", bkind=c["bkind"], blocks=c["blocks"], prev=c["prev"],
                                         prefill=c["prefill"]) for c in cases], tag="ref")
    ures, missing, err = ctx.probe("unmarshal", [dict(id=c["id"], type=c["type"], src_hex=c["src"].hex(), prev=c["prev"], prefill=c["prefill"]) for c in cases])
    mres = ctx.model([("interp", c["id"], F("input", c["src"], "")) for c in cases])
    mbind = ctx.model([model_item(c) for c in cases])
    ndis = 0
    okc = 0
    for c in cases:
        u, b = ures.get(c["id"]), bres.get(c["id"])
        if not u or not b:
            continue
        ctx.count(1, casehash(c["src"]))
        case = dict(src=c["src"].decode("utf8", "replace")[:700], src_hex=c["src"].hex(), type=c["type"])
        if u["class"] != "ok":
            ctx.violation("Unmarshal %s: %s" % (u["class"], u.get("panic", "")[:200]), case, impl=u, key="unmarshal-" + u["class"],
                          theorem="C05_pipeline")
            continue
        if mbind.get(c["id"]) != b.get("obs"):
            ndis += 1
            ctx.violation("Bind of the value's blocks: implementation %r, model of the documented matching rule %r" % (
                (b.get("obs") or "")[:200], (mbind.get(c["id"]) or "")[:200]), dict(case, blocks=c["blocks"]),
                impl=b, model=mbind.get(c["id"]), theorem="C05_bind_roundtrip", key="bind-vs-model")
            continue
        if not b.get("obs", "").startswith("ok "):
            ctx.notes.append("generator produced a block Bind rejects: %s" % b.get("obs"))
            continue
        okc += 1
        if u["obs"] != b["obs"]:
            ndis += 1
            ctx.violation("Unmarshal of the BCL text does not reproduce the value: got %r, expected %r" % (u["obs"][:300], b["obs"][:300]),
                          case, impl=u["obs"], model=b["obs"], theorem="C05_pipeline", key="unmarshal-differs")
        m = interp.parse_model(mres.get(c["id"]))
        want = ("slice " + ";".join(canon_block(x) for x in c["blocks"])) if c["bkind"] == "slice" else "struct " + canon_block(c["blocks"][0])
        if m.get("class") != "ok" or m.get("binding") != want:
            ctx.broken.append(("correspondence", "model reading of a rendered value", "case %s: model binding=%s want=%s" % (
                c["id"], (m.get("binding") or m.get("class") or "")[:200], want[:200])))
    ctx.suite_stats["unmarshal"] = dict(cases=len(cases), bound_ok=okc, disagreements=ndis)
    ctx.traces = okc - ndis
    for c in cases[:2]:
        ctx.sample(dict(src=c["src"].decode("utf8", "replace")[:400]))
    return ctx.finish("shapes: reflect.StructOf types and a compiled-in family of named types; the reference value is Bind of the "
                      "same blocks (validated against the model in C15)")


KEYWORDS = {"var", "def", "eval", "print", "bind", "true", "false", "nil", "not", "and", "or", "TYPE", "NAME"}


def _idents(b):
    yield b["t"]
    for k, v in b["f"]:
        if isinstance(v, dict):
            yield from _idents(v)
        else:
            yield k


def _bad_ident(s):
    import re
    return s in KEYWORDS or not re.match(r"^[A-Za-z_][A-Za-z0-9_]*$", s)
