"""C18: the command-line tool mirrors the library."""
import itertools, json, os, random, re
from .core import F, casehash, sh, BUILD, REPO, GOENV, VERIF, WORK

PROGS = {
    "ok": b"var x = 1\ndef t \"n\" { f = x + 1 }\nbind t -> struct\nprint x\n",
    "ok2": b'print "hello"\nprint 1.5 * 2\n',
    "parse_err": b"print 1 +\nprint *\n",
    "lex_err": b"print @\n",
    "runtime_err": b"print 1\nprint 1 / 0\nprint 2\n",
    "warn": b"def t {}\nbind t -> struct\nbind t:first -> slice\n",
    "empty": b"",
    "longstr": b'var s = "' + b"x" * 300 + b'"\nprint s\n',
}
FLAGS = ["-d", "-t", "-r", "-s", "--disasm", "--trace", "--result", "--stats"]


def parse_model_args(s):
    if s.startswith("usage"):
        return dict(usage=True, why=s)
    d = dict(kv.split("=", 1) for kv in s.split(" ")[1:])
    return dict(file=bytes.fromhex(d["file"]).decode("latin1"), d=d["d"] == "1", t=d["t"] == "1", r=d["r"] == "1", s=d["s"] == "1",
                bdump=d["bdump"] == "1", bload=d["bload"] == "1", bdumpfile=bytes.fromhex(d["bdumpfile"]).decode("latin1"),
                bloadfile=bytes.fromhex(d["bloadfile"]).decode("latin1"), help=d["help"] == "1")


def check_C18(ctx):
    ctx.build(["Properties/C18.vo"], "Properties/C18.v")
    rc, out, _ = sh(["go", "build", "-o", os.path.join(BUILD, "bcl"), "./cmd/bcl"], cwd=REPO, env=GOENV, timeout=600)
    if rc != 0:
        from .core import fatal
        fatal("building /repo/cmd/bcl failed:\n" + out[-2000:])
    rng = random.Random(ctx.seed * 18013 + 18)
    cases = []
    n = 0

    def add(argv, prog, via, extra_files=None, tag=""):
        nonlocal n
        files = dict(extra_files or {})
        stdin = b""
        if via == "file":
            files["in.bcl"] = PROGS[prog]
        elif via == "stdin":
            stdin = PROGS[prog]
        cases.append(dict(id="c%d" % n, argv=argv, stdin_hex=stdin.hex(), files={k: v.hex() for k, v in files.items()}, _prog=prog,
                          _via=via, _tag=tag))
        n += 1

    for prog in PROGS:
        for k in range(ctx.n(6, 30)):
            fl = rng.sample(FLAGS, rng.randint(0, 4))
            if rng.random() < 0.4 and fl:
                letters = "".join(f[1] if not f.startswith("--") else f[2] for f in fl)
                fl = ["-" + letters] if len(letters) > 1 else fl
            via = rng.choice(["file", "stdin", "dash"])
            argv = list(fl)
            if via == "file":
                argv.insert(rng.randint(0, len(argv)), "in.bcl")
                add(argv, prog, "file")
            elif via == "dash":
                argv.insert(rng.randint(0, len(argv)), "-")
                add(argv, prog, "stdin")
            else:
                add(argv, prog, "stdin")
    # every permutation of three flags around the file: the outcome must not depend on the order
    for perm in itertools.permutations(["-d", "-s", "-r", "in.bcl"]):
        add(list(perm), "ok", "file", tag="perm")
    for cl in ["-dsr", "-rsd", "-srd", "-ds", "-tt", "-dd"]:
        add([cl, "in.bcl"], "ok", "file", tag="cluster")
        add(["in.bcl", cl], "ok", "file", tag="cluster")
    # a cluster of k letters followed by at least k further arguments, in every arrangement
    for cl, rest in [("-dt", ["in.bcl", "-r"]), ("-dt", ["-r", "in.bcl"]), ("-rd", ["in.bcl", "-t"]), ("-rd", ["-t", "in.bcl"]),
                     ("-ds", ["--bdump=out.bcb", "in.bcl"]), ("-dts", ["in.bcl", "-r", "-s"]), ("-sr", ["-d", "-t", "in.bcl"]),
                     ("-dtr", ["-s", "--stats", "in.bcl", "--disasm"])]:
        add([cl] + rest, "ok", "file", tag="cluster")
        add([cl] + rest, "runtime_err", "file", tag="cluster")
    # usage errors
    for argv in [["-x"], ["--nosuch"], ["-dX"], ["a.bcl", "b.bcl"], ["--bdump"], ["--bdumpx"], ["--bload=x.bcb", "in.bcl"], ["-d-"],
                 ["--bdump", "-"], ["--", "-d"], ["-h"], ["-d", "-h", "-x"], ["--bload=", "in.bcl"], ["-é"], ["--disasm=1"], [""]]:
        add(argv, "ok", "stdin", tag="usage")
    add(["nosuchfile.bcl"], "ok", "none", tag="open")
    # bdump then bload
    for prog in PROGS:
        add(["--bdump", "in.bcl"], prog, "file", tag="bdump")
        add(["--bdump=out.bcb", "-r", "in.bcl"], prog, "file", tag="bdump")
        add(["--bdump=out.bcb"], prog, "stdin", tag="bdump")
    # the derived dump name for stems ending in any character of ".bcl" and with inner dots; I/O errors while dumping
    for stem in ["tunnel", "public", "sql", "web.lb", "a.b.c", "bcl", "x.bcl", "lib", "c", ".bcl", "abc.b"]:
        add(["--bdump", stem + ".bcl"], "ok", "none", extra_files={stem + ".bcl": PROGS["ok"]}, tag="bdumpname")
        add(["--bdump", stem], "ok", "none", extra_files={stem: PROGS["ok"]}, tag="bdumpname")
    for argv in (["--bdump=/dev/full", "in.bcl"], ["in.bcl", "--bdump=/dev/full", "-r"], ["--bdump=/nonexistent-dir/x.bcb", "in.bcl"],
                 ["--bdump=.", "in.bcl"]):
        for prog in ("ok", "runtime_err"):
            add(argv, prog, "file", tag="dumpio")
    add(["--bload=nosuch.bcb"], "ok", "none", tag="dumpio")
    add(["--bload", "/dev/null"], "ok", "none", tag="dumpio")
    add(["--bload", "."], "ok", "none", tag="dumpio")
    res0 = None
    # model reading of argv
    mres = ctx.model([("cliargs", c["id"], F(*[a.encode("utf8") for a in c["argv"]])) for c in cases])
    for c in cases:
        c["flags"] = parse_model_args(mres.get(c["id"], "usage ?"))
    env = dict(os.environ, VERIF_BCL_BIN=os.path.join(BUILD, "bcl"), VERIF_WORK=WORK)
    path = os.path.join(WORK, "C18_cli.cases.jsonl")
    with open(path, "w") as f:
        for c in cases:
            f.write(json.dumps({k: v for k, v in c.items() if not k.startswith("_")}) + "\n")
    rc, out, _ = sh([os.path.join(BUILD, "bclprobe"), "cli"], input=open(path, "rb").read(), env=env, timeout=1800)
    res = {}
    for line in out.splitlines():
        if line.startswith("{"):
            r = json.loads(line)
            res[r["id"]] = r
    # the model of main.run (Model/CliRun.v) on the same argv, standard input and files
    def target_kind(c):
        bf = (c["flags"] or {}).get("bdumpfile", "") if isinstance(c.get("flags"), dict) else ""
        if bf == "/dev/full":
            return "w"
        if bf == "." or bf.startswith("/nonexistent"):
            return "c"
        return "o"
    mrun = ctx.model([("clirun", "run/" + c["id"],
                       F(F(*[a.encode("utf8") for a in c["argv"]]), bytes.fromhex(c["stdin_hex"]),
                         F(*[x for k, v in sorted(c["files"].items()) for x in (k.encode("utf8"), bytes.fromhex(v))]), target_kind(c)))
                      for c in cases])
    nmodel = 0
    stats = {}
    dumps = {}
    for c in cases:
        r = res.get(c["id"])
        if not r:
            ctx.violation("no observation for a CLI case (probe crashed?)", dict(argv=c["argv"]), key="cli-crash")
            continue
        ctx.count(1, casehash(json.dumps(c["argv"]), c["_prog"], c["_via"]))
        real, mir = r["real"], r.get("mirror")
        stats[real["status"]] = stats.get(real["status"], 0) + 1
        case = dict(argv=c["argv"], program=PROGS[c["_prog"]].decode("utf8", "replace")[:200], via=c["_via"])
        if c["flags"].get("usage"):
            if real["status"] != 2 or not real["stderr"] or real["stdout"]:
                ctx.violation("usage error expected (exit 2, message on stderr, nothing on stdout), got status %s" % real["status"], case,
                              impl=real, model=c["flags"], theorem="C18_exit_codes", key="usage-status")
            continue
        if real["status"] == 2 and b"goroutine" in bytes.fromhex(real["stderr"]):
            ctx.violation("the tool crashed with a Go panic", case, impl=bytes.fromhex(real["stderr"]).decode("utf8", "replace")[:1500],
                          theorem="C18_exit_codes", key="cli-panic")
            continue
        if mir is None:
            continue
        if c["flags"].get("help"):
            if real["status"] != 0 or not bytes.fromhex(real["stdout"]).startswith(b"usage: bcl"):
                ctx.violation("-h must print the usage line and exit 0", case, impl=real, theorem="C18_exit_codes", key="help")
            continue
        # against the model: exit status, stdout up to the -r lines, the file written, error or not
        mr = dict(kv.split("=", 1) for kv in (mrun.get("run/" + c["id"]) or "").split(" ") if "=" in kv)
        if mr and mr.get("err") != "MODEL" and "stdout" in mr:
            nmodel += 1
            # introspection text is compared modulo the amount of horizontal white space (column widths are not a property;
            # the exact bytes are compared with the library called in process below)
            norm = lambda b: re.sub(rb"[ \t]+", b" ", b)
            want_out = norm(bytes.fromhex(mr["stdout"]))
            got_out = norm(bytes.fromhex(real["stdout"]))
            rest = got_out[len(want_out):] if got_out.startswith(want_out) else None
            bad = []
            if str(real["status"]) != mr["status"]:
                bad.append("status")
            if rest is None or (mr["r"] == "1") != rest.startswith(b"result: ") or (mr["r"] == "0" and rest != b""):
                bad.append("stdout")
            newfiles = {k: v for k, v in real["files"].items() if c["files"].get(k) != v}
            if mr["written"] == "-":
                if newfiles and target_kind(c) == "o":
                    bad.append("files")
            else:
                wn, _, wc = mr["written"].partition(":")
                if newfiles.get(bytes.fromhex(wn).decode("utf8", "replace")) != wc:
                    bad.append("files")
            if (mr["err"] != "none") != bool(real["stderr"]) and not (mr["err"] == "none" and b"WARNING" in bytes.fromhex(real["stderr"])):
                bad.append("stderr")
            if bad:
                ctx.violation("the tool differs from the model of main.run (Model/CliRun.v) on: %s" % ",".join(bad), case,
                              impl=dict(status=real["status"], stdout=got_out.decode("utf8", "replace")[:600],
                                        stderr=bytes.fromhex(real["stderr"]).decode("utf8", "replace")[:400], files=sorted(newfiles)),
                              model={k: (v[:300]) for k, v in mr.items()}, theorem="C18_run_model", key="cli-model:" + bad[0])
        elif mr.get("err") == "MODEL":
            ctx.broken.append(("correspondence", "Model/CliRun.v gave up on a case", "argv %r" % (c["argv"],)))
        same = (real["status"] == mir["status"] and real["stdout"] == mir["stdout"] and real["stderr"] == mir["stderr"]
                and real["files"] == mir["files"])
        if not same:
            diff = [k for k in ("status", "stdout", "stderr", "files") if real[k] != mir[k]]
            ctx.violation("the tool and the library called in-process differ on: %s" % ",".join(diff), case,
                          impl={k: (bytes.fromhex(real[k]).decode("utf8", "replace")[:600] if k in ("stdout", "stderr") else real[k]) for k in diff},
                          model={k: (bytes.fromhex(mir[k]).decode("utf8", "replace")[:600] if k in ("stdout", "stderr") else mir[k]) for k in diff},
                          theorem="C18_mirror", key="cli-differs:" + diff[0])
        if real["status"] not in (0, 1):
            ctx.violation("exit status %s (expected 0 or 1 for a run that is not a usage error)" % real["status"], case, impl=real,
                          theorem="C18_exit_codes", key="status-range")
        if real["status"] == 1 and not real["stderr"]:
            ctx.violation("status 1 without a message on stderr", case, impl=real, theorem="C18_exit_codes", key="status1-silent")
        if c["_tag"] == "bdump":
            for fn, content in real["files"].items():
                if fn.endswith(".bcb"):
                    dumps[c["id"]] = (c, fn, content, real)
    # flag order / clustering: all permutations and clusters give the same outcome
    for tag in ("perm",):
        group = [res[c["id"]]["real"] for c in cases if c["_tag"] == tag and c["id"] in res]
        if group and any((g["status"], g["stdout"], g["stderr"]) != (group[0]["status"], group[0]["stdout"], group[0]["stderr"]) for g in group):
            ctx.violation("the order of flags changed the outcome", dict(tag=tag), impl=group[:2], theorem="C18_flag_order", key="flag-order")
    # --bload of what --bdump wrote reproduces output and status (without -d/-s differences: plain run)
    bl = []
    extra = []
    for cid, (c, fn, content, real) in dumps.items():
        bl.append(dict(id="bl-" + cid, argv=["--bload", fn] + [a for a in c["argv"] if a in ("-r",)], stdin_hex="",
                       files={fn: content}, flags=dict(file=fn, d=False, t=False, r="-r" in c["argv"], s=False, bdump=False, bload=True,
                                                       bdumpfile="", bloadfile="", help=False)))
        for k, av in enumerate((["-d", "--bload", fn], ["--bload=" + fn], ["--bload=" + fn, "-d"])):
            extra.append(dict(id="blx%d-%s" % (k, cid), argv=av, stdin_hex="", files={fn: content}, _prog=c["_prog"], _via="none", _tag="bloadx"))
    if bl:
        p2 = os.path.join(WORK, "C18_bload.cases.jsonl")
        with open(p2, "w") as f:
            for c in bl:
                f.write(json.dumps(c) + "\n")
        rc, out, _ = sh([os.path.join(BUILD, "bclprobe"), "cli"], input=open(p2, "rb").read(), env=env, timeout=1800)
        for line in out.splitlines():
            if line.startswith("{"):
                r = json.loads(line)
                cid = r["id"][3:]
                c, fn, content, real = dumps[cid]
                ctx.count(1, "bload" + cid)
                got = r["real"]
                if (got["status"], got["stdout"]) != (real["status"], real["stdout"]):
                    ctx.violation("--bload of the file written by --bdump does not reproduce output/status",
                                  dict(argv=c["argv"], program=PROGS[c["_prog"]].decode()[:200]),
                                  impl=dict(status=got["status"], stdout=bytes.fromhex(got["stdout"]).decode("utf8", "replace")[:500],
                                            stderr=bytes.fromhex(got["stderr"]).decode("utf8", "replace")[:500]),
                                  model=dict(status=real["status"], stdout=bytes.fromhex(real["stdout"]).decode("utf8", "replace")[:500]),
                                  theorem="C18_bdump_bload", key="bdump-bload")
    # loading what was dumped, with -d and in the --bload=FILE spelling: against the library mirror and the model of main.run
    if extra:
        ma = ctx.model([("cliargs", c["id"], F(*[a.encode("utf8") for a in c["argv"]])) for c in extra])
        for c in extra:
            c["flags"] = parse_model_args(ma.get(c["id"], "usage ?"))
        p3 = os.path.join(WORK, "C18_bloadx.cases.jsonl")
        with open(p3, "w") as f:
            for c in extra:
                f.write(json.dumps({k: v for k, v in c.items() if not k.startswith("_")}) + "\n")
        rc, out, _ = sh([os.path.join(BUILD, "bclprobe"), "cli"], input=open(p3, "rb").read(), env=env, timeout=1800)
        xres = {}
        for line in out.splitlines():
            if line.startswith("{"):
                r = json.loads(line)
                xres[r["id"]] = r
        mx = ctx.model([("clirun", "run/" + c["id"], F(F(*[a.encode("utf8") for a in c["argv"]]), b"",
                                                       F(*[x for k, v in sorted(c["files"].items()) for x in (k.encode("utf8"), bytes.fromhex(v))]), "o"))
                        for c in extra])
        norm = lambda b: re.sub(rb"[ \t]+", b" ", b)
        for c in extra:
            r = xres.get(c["id"])
            if not r:
                continue
            ctx.count(1, casehash(json.dumps(c["argv"]), c["_prog"], "bloadx"))
            real, mir = r["real"], r.get("mirror")
            case = dict(argv=c["argv"], program=PROGS[c["_prog"]].decode("utf8", "replace")[:200], note="the file was written by --bdump of that program")
            if mir is not None and (real["status"], real["stdout"], real["stderr"]) != (mir["status"], mir["stdout"], mir["stderr"]):
                diff = [k for k in ("status", "stdout", "stderr") if real[k] != mir[k]]
                ctx.violation("the tool and the library called in-process differ on: %s" % ",".join(diff), case,
                              impl={k: (bytes.fromhex(real[k]).decode("utf8", "replace")[:400] if k != "status" else real[k]) for k in diff},
                              model={k: (bytes.fromhex(mir[k]).decode("utf8", "replace")[:400] if k != "status" else mir[k]) for k in diff},
                              theorem="C18_mirror", key="cli-differs:" + diff[0])
            mr = dict(kv.split("=", 1) for kv in (mx.get("run/" + c["id"]) or "").split(" ") if "=" in kv)
            if mr and "stdout" in mr and mr.get("err") != "MODEL":
                if str(real["status"]) != mr["status"] or norm(bytes.fromhex(real["stdout"])) != norm(bytes.fromhex(mr["stdout"])):
                    ctx.violation("the tool differs from the model of main.run (Model/CliRun.v) on a --bload run", case,
                                  impl=dict(status=real["status"], stdout=bytes.fromhex(real["stdout"]).decode("utf8", "replace")[:500],
                                            stderr=bytes.fromhex(real["stderr"]).decode("utf8", "replace")[:300]),
                                  model={k: v[:300] for k, v in mr.items()}, theorem="C18_run_model", key="cli-model-bload")
            elif (mx.get("run/" + c["id"]) or "").startswith("status=2") and real["status"] != 2:
                ctx.violation("the tool accepts an argument vector the model of parseArgs rejects (or the reverse)", case, impl=real["status"],
                              model=mx.get("run/" + c["id"]), theorem="C18_run_model", key="cli-model-usage")
    ctx.suite_stats["cli_model"] = dict(cases_compared_with_the_model_of_main_run=nmodel)
    ctx.suite_stats["cli"] = dict(cases=len(cases), statuses={str(k): v for k, v in stats.items()}, bdump_bload=len(bl))
    ctx.traces = len(cases)
    for c in cases[:3]:
        ctx.sample(dict(argv=c["argv"], program=c["_prog"], via=c["_via"]))
    return ctx.finish("the OS (file system, process exit) is outside the model; the binary is built from /repo/cmd/bcl on every run "
                      "and compared with the library called in-process with the flags the model reads from argv")
