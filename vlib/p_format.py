"""C14: the version 1.1 bytecode format is stable.  Recorded corpus + independent decoder on fresh dumps."""
import glob, json, os, random, re
from .core import F, casehash, VERIF
from .p_dumpload import gen_cases, parse_parts
from . import interp
from .p_lang import err_class


def check_C14(ctx):
    ctx.build(["Proofs/TieFormat.vo", "Proofs/TieVm.vo", "Properties/C14.vo"], "Properties/C14.v")
    # 1. the recorded corpus must load and execute to its recorded behaviour on the current tree
    recs = [json.load(open(f)) for f in sorted(glob.glob(os.path.join(VERIF, "corpus", "v11", "*.json")))]
    raw = [dict(id=r["id"], data_hex=r["dump_hex"], name="corpus", exec=True, sizes=[]) for r in recs]
    raw += [dict(id=r["id"] + "/1", data_hex=r["dump_hex"], name="corpus", exec=True, sizes=[1]) for r in recs]
    # minor version 0 files (written by 1.0 builds) must still load: same bytes with the minor byte cleared
    raw += [dict(id=r["id"] + "/v10", data_hex=r["dump_hex"][:6] + "00" + r["dump_hex"][8:], name="corpus", exec=True, sizes=[])
            for r in recs if "BIND" not in r["id"].upper() and not r["id"].startswith("bind") and not r["id"].startswith("err_bind")]
    res, missing, err = ctx.probe("loadraw", raw, tag="corpus")
    mres = ctx.model([("loadexec", r["id"], bytes.fromhex(r["dump_hex"])) for r in recs])
    byid = {r["id"]: r for r in recs}
    for c in raw:
        rid = c["id"].split("/")[0]
        rec = byid[rid]
        r = res.get(c["id"])
        ctx.count(1, c["id"])
        case = dict(corpus_file="corpus/v11/%s.json" % rid, variant=c["id"], source=rec.get("source", "")[:200])
        if not r or r["class"] != "ok":
            ctx.violation("recorded version-1.1 file no longer loads: %s" % (r and (r["class"], r.get("label"))), case, impl=r,
                          theorem="C14_corpus", key="corpus-load")
            continue
        if r["parts"] != rec["parts"]:
            ctx.violation("recorded file loads to different program parts", case, impl=r["parts"][:400], model=rec["parts"][:400],
                          theorem="C14_corpus", key="corpus-parts")
        e = r["exec"]
        got = dict(Class=e["Class"], Err=e["Err"], Out=e["Out"], Log=e["Log"], Blocks=e["Blocks"], Binding=e["Binding"])
        if got != rec["expect"]:
            # the WORDING of runtime errors / warnings is not part of the file format: only their kind and position are
            proj = lambda o: dict(Class=o["Class"], Err=(err_class(o["Err"]), re.findall(r"line \d+:\d+", o["Err"])), Out=o["Out"],
                                  Log=interp.diag_proj(bytes.fromhex(o["Log"])), Blocks=o["Blocks"], Binding=o["Binding"])
            pg, pe = proj(got), proj(rec["expect"])
            diff = [k for k in pg if pg[k] != pe[k]]
            if diff:
                ctx.violation("recorded file executes differently (%s)" % ",".join(diff), case, impl=got, model=rec["expect"],
                              theorem="C14_corpus", key="corpus-exec:" + diff[0])
            else:
                ctx.broken.append(("correspondence", "corpus: message wording of %s differs from the recording" % c["id"],
                                   "now %r, recorded %r" % ((got["Err"] or got["Log"])[:120], (rec["expect"]["Err"] or rec["expect"]["Log"])[:120])))
    for rec in recs:
        if mres.get(rec["id"]) != rec["model"]:
            ctx.broken.append(("correspondence", "corpus: the model's reading of %s changed" % rec["id"],
                               "model=%s recorded=%s" % ((mres.get(rec["id"]) or "")[:200], rec["model"][:200])))
    # 2. fresh dumps follow the documented layout: the independent decoder recovers exactly the parts,
    #    and the documented encoder produces exactly the bytes
    cases = gen_cases(ctx, ctx.n(80, 800))
    for c in cases:
        c["partitions"] = [[]]
    dres, dmissing, derr = ctx.probe("dumpload", cases, timeout=3000)
    items, meta = [], {}
    for c in cases:
        r = dres.get(c["id"])
        if not r or r.get("parse") != "ok":
            continue
        if "dump" not in r:
            ctx.violation("an accepted program has no version-1.1 dump: Dump %s %s" % (r.get("dump_class"), r.get("dump_err", "")[:200]),
                          dict(src_hex=c["src_hex"][:2000], name=c["name"][:100]), impl=r.get("dump_err"), theorem="C14_layout",
                          key="dump-fails")
            continue
        for l in r.get("loads", []):
            if l["class"] != "ok" or l.get("parts") != r["parts"]:
                ctx.violation("a version-1.1 file written by this build is not read back by it: LoadProg %s %s" % (l["class"], l.get("label", "")),
                              dict(src_hex=c["src_hex"][:2000], name=c["name"][:100], dump_hex=r["dump"][:4000]), impl=l,
                              theorem="C14_decode_dump", key="fresh-load:" + l["class"])
        meta[c["id"]] = (c, r)
        items.append(("fmtdecode", c["id"] + "/dec", bytes.fromhex(r["dump"])))
        items.append(("fmtencode", c["id"] + "/enc", parse_parts(r["parts"])))
    m2 = ctx.model(items, timeout=3000)
    nfresh = 0
    for cid, (c, r) in meta.items():
        nfresh += 1
        ctx.count(1, casehash(c["src_hex"], c["name"]))
        case = dict(src_hex=c["src_hex"][:2000], name=c["name"][:100])
        if m2.get(cid + "/dec") != "ok " + r["parts"] + " rest=0":
            ctx.violation("the independent decoder of the documented format does not recover the program's parts from Dump's bytes",
                          case, impl=r["dump"][:600], model=(m2.get(cid + "/dec") or "")[:600], theorem="C14_layout",
                          key="layout-decode")
        elif m2.get(cid + "/enc") != r["dump"]:
            ctx.violation("Dump's bytes differ from the documented encoding of the same parts", case, impl=r["dump"][:600],
                          model=(m2.get(cid + "/enc") or "")[:600], theorem="C14_layout", key="layout-encode")
    ctx.suite_stats["corpus"] = dict(files=len(recs), variants=len(raw))
    ctx.suite_stats["fresh_dumps"] = dict(programs=nfresh)
    ctx.traces = nfresh + len(recs)
    ctx.sample(dict(corpus=[r["id"] for r in recs][:10]))
    ctx.sample(dict(fresh=bytes.fromhex(cases[0]["src_hex"])[:100].decode("latin1")))
    return ctx.finish("corpus files were recorded from the pinned (repaired) build and from Spec/Format.v's encoder; "
                      "they are committed under corpus/v11 and never rewritten by a check")
