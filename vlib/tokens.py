"""Token-level helpers: tokenise with the real lexer (probe suite lex), re-render with arbitrary admissible
layout, redundant parentheses and optional semicolons, and mutate token sequences."""
import random

WS = [b" ", b"\t", b"\v", b"\f", b"\r", b"\n", "\u0085".encode(), " ".encode(), b"\r\n", b"  ", b" \t "]
COMMENT_BODIES = [b"", b" c", b' "quoted" var def print', " é € 😀".encode(), b" \xff\xfe bad bytes", b"#;(){}=",
                  b" \\", b' "', b"\t\v\f"]


def lex_many(ctx, texts, tag="tk"):
    """-> list (per text) of token lists [(typ, val, start, end)] or None when the lexer failed"""
    cases = [dict(id="t%d" % i, chunks=[t.hex()]) for i, t in enumerate(texts)]
    res, _, _ = ctx.probe("lex", cases, tag=tag)
    out = []
    for i, t in enumerate(texts):
        r = res.get("t%d" % i)
        if not r or r.get("class") != "ok":
            out.append(None)
            continue
        toks = []
        body = r["obs"].split(" lfs=")[0][len("toks="):]
        bad = False
        for item in body.split(","):
            typ, val, pos = item.split(":")
            if typ in ("tERR", "tFAIL"):
                bad = True
                break
            if typ == "tEOF":
                continue
            v = bytes.fromhex(val)
            toks.append((typ, v, int(pos) - len(v), int(pos)))
        out.append(None if bad else toks)
    return out


def rand_sep(rng, must=False, comment_rate=0.15):
    """a separator: whitespace of all eight kinds and '#' comments ended by CR or LF"""
    parts = []
    n = rng.choice([0, 1, 1, 1, 2, 3]) if not must else rng.choice([1, 1, 2, 3])
    for _ in range(n):
        if rng.random() < comment_rate:
            parts.append(b"#" + rng.choice(COMMENT_BODIES) + rng.choice([b"\n", b"\r", b"\r\n"]))
        else:
            parts.append(rng.choice(WS))
    return b"".join(parts)


def need_sep(a, b):
    """must two adjacent token texts be separated?  (conservative: true unless one side is punctuation that
    can neither merge with its neighbour nor trip a sticky-token check)"""
    punct = b"{}();:*/+"
    if a[-1:] in punct or b[:1] in punct:
        # '=' '<' '>' '!' '-' can start two-rune tokens: keep them apart from '=' and '>'
        if a[-1:] in b"=<>!-" and b[:1] in b"=>":
            return True
        if a[-1:] == b"/" or b[:1] == b"/":
            return False
        return False
    if a[-1:] in b"=<>!-" and b[:1] in b"=>":
        return True
    if a[-1:] in b"=<>!-" or b[:1] in b"=<>!-":
        return False
    return True


def render(rng, toks, marks=None, add_parens=0.0, add_semis=0.0, min_layout=False):
    """re-render a token list; marks = [(offset, 1|2|3)] from genprog.strip_markers.
    Parentheses are added around marked groups (matching 1/2 pairs), semicolons at 3-marks."""
    opens, closes, semis = {}, {}, set()
    if marks:
        stack = []
        for off, m in marks:
            if m == 1:
                stack.append(off)
            elif m == 2 and stack:
                o = stack.pop()
                k = 0
                while rng.random() < add_parens and k < 3:
                    k += 1
                if k:
                    opens[o] = opens.get(o, 0) + k
                    closes[off] = closes.get(off, 0) + k
            elif m == 3 and rng.random() < add_semis:
                semis.add(off)
    out = bytearray()
    prev = None

    def put(tok):
        nonlocal prev
        if prev is not None:
            if min_layout:
                sep = b" " if need_sep(prev, tok) else b""
            else:
                sep = rand_sep(rng, must=need_sep(prev, tok))
            out.extend(sep)
        elif not min_layout:
            out.extend(rand_sep(rng))
        out.extend(tok)
        prev = tok

    for typ, val, start, end in toks:
        for _ in range(opens.get(start, 0)):
            put(b"(")
        put(val)
        for _ in range(closes.get(end, 0)):
            put(b")")
        if end in semis:
            put(b";")
    if not min_layout:
        out.extend(rand_sep(rng))
    return bytes(out)


VOCAB = [b"var", b"def", b"eval", b"print", b"bind", b"true", b"false", b"nil", b"not", b"and", b"or", b"=", b"==",
         b"!=", b"<", b"<=", b">", b">=", b"+", b"-", b"*", b"/", b":", b"->", b";", b"{", b"}", b"(", b")", b"x",
         b"y", b"first", b"struct", b"slice", b"1", b"2.5", b'"s"', b"0x1F"]


def mutations(rng, toks, limit):
    """token lists with one token deleted / inserted / replaced / transposed at (sampled) positions"""
    vals = [t[1] for t in toks]
    n = len(vals)
    muts = []
    pos = list(range(n + 1))
    rng.shuffle(pos)
    for p in pos[:limit]:
        k = rng.random()
        if k < 0.25 and p < n:
            muts.append(("del", p, vals[:p] + vals[p + 1:]))
        elif k < 0.5:
            muts.append(("ins", p, vals[:p] + [rng.choice(VOCAB)] + vals[p:]))
        elif k < 0.75 and p < n:
            muts.append(("rep", p, vals[:p] + [rng.choice(VOCAB)] + vals[p + 1:]))
        elif p + 1 < n:
            muts.append(("swap", p, vals[:p] + [vals[p + 1], vals[p]] + vals[p + 2:]))
    return muts


def join_tokens(vals):
    out = bytearray()
    prev = None
    for v in vals:
        if prev is not None:
            out += b" " if need_sep(prev, v) else rnd_empty()
        out += v
        prev = v
    return bytes(out) + b"\n"


def rnd_empty():
    return b" "
