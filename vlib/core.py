"""Shared machinery of bin/vcheck: building (tables, Coq, extraction, Go harness), running the
implementation probe and the extracted model, deciding, replay files, known findings, evidence."""
import fcntl, hashlib, json, os, re, subprocess, sys, time

VERIF = os.path.dirname(os.path.dirname(os.path.abspath(__file__)))
REPO = os.environ.get("VERIF_REPO", "/repo")
COQ = os.path.join(VERIF, "coq")
BUILD = os.path.join(VERIF, "build")
WORK = os.path.join(VERIF, "evidence", "work")
REPLAY = os.path.join(VERIF, "evidence", "replay")

GOENV = dict(os.environ, GOFLAGS="-mod=mod", GOPROXY="off", GOSUMDB="off", GOTOOLCHAIN="local",
             CGO_ENABLED=os.environ.get("CGO_ENABLED", "0"))

TRUSTED_BASE = [
    "Coq 8.16.1 kernel (coqc; coqchk -o in the thorough tier: Axioms <none>); vm_compute used in finite-sweep lemmas, tie lemmas and examples; no native_compute",
    "libraries: Coq standard library (Lists, ZArith, NArith, Lia/Zify, Permutation, Sorted, SpecFloat), coq-record-update (RecordSet); none brings an axiom",
    "axioms: none declared; Print Assumptions of every property theorem is checked to be 'Closed under the global context'",
    "tools/gentables (Go, go/ast): copies tables and constants from /repo's source into Gen/GenTables.v, lists assignments to package-level variables and through a Prog, and the synchronisation skeleton (channel / goroutine / mutex operations)",
    "extraction: Coq Extraction with ExtrOcamlBasic only (Extract Inductive for bool, option, unit, list, prod, sumbool, sumor; inlined andb/orb); no Extract Constant; OCaml 4.13 ocamlfind ocamlopt; coq/Extract/driver.ml (byte shuffling only)",
    "correspondence harness: harness/cmd/bclprobe (Go), vlib/*.py generators and comparators",
    "modelled, not verified: Go runtime and standard library (strconv, fmt, utf8, bufio, io, reflect, sort, channels, scheduler), github.com/mohae/uvarint (modelled in Model/Encoding.v)",
    "the Go code itself is tied to the model by the translator (tables) and by differential runs (behaviour), not by a proof about Go semantics",
]


def _big_stack():
    # the extracted model recurses on lists (not tail-recursively); give it a deep native stack
    import resource
    try:
        resource.setrlimit(resource.RLIMIT_STACK, (resource.RLIM_INFINITY, resource.RLIM_INFINITY))
    except Exception:
        try:
            soft, hard = resource.getrlimit(resource.RLIMIT_STACK)
            resource.setrlimit(resource.RLIMIT_STACK, (hard, hard))
        except Exception:
            pass


def sh(cmd, cwd=None, env=None, timeout=1800, input=None, big_stack=False):
    t0 = time.time()
    try:
        p = subprocess.run(cmd, cwd=cwd, env=env or os.environ, timeout=timeout, input=input,
                           preexec_fn=_big_stack if big_stack else None,
                           stdout=subprocess.PIPE, stderr=subprocess.STDOUT, shell=isinstance(cmd, str))
        return p.returncode, p.stdout.decode("utf8", "replace"), time.time() - t0
    except subprocess.TimeoutExpired as e:
        return 124, (e.stdout or b"").decode("utf8", "replace") + "\nTIMEOUT", time.time() - t0


class BuildLock:
    def __enter__(self):
        os.makedirs(BUILD, exist_ok=True)
        self.f = open(os.path.join(BUILD, ".lock"), "w")
        fcntl.flock(self.f, fcntl.LOCK_EX)
        return self

    def __exit__(self, *a):
        fcntl.flock(self.f, fcntl.LOCK_UN)
        self.f.close()


def F(*fields):
    """length-framed fields, the case format the Gallina side parses (Lib/Base.v fields)"""
    out = bytearray()
    for f in fields:
        if isinstance(f, str):
            f = f.encode()
        out += str(len(f)).encode() + b":" + bytes(f)
    return bytes(out)


class Ctx:
    """one check run"""

    def __init__(self, prop, tier, seed):
        self.prop, self.tier, self.seed = prop, tier, seed
        self.t0 = time.time()
        self.violations = []       # dicts
        self.known = []
        self.broken = []           # (kind, name, detail): proof / tie / correspondence obligations that no longer check
        self.obligations = 0
        self.discharged = 0
        self.theorems = []
        self.assumptions_closed = None
        self.evals = 0
        self.distinct = set()
        self.samples = []
        self.suite_stats = {}
        self.notes = []
        self.died = {}
        self.case_by_id = {}
        self.traces = 0
        os.makedirs(WORK, exist_ok=True)
        os.makedirs(REPLAY, exist_ok=True)

    @property
    def thorough(self):
        return self.tier == "thorough"

    def n(self, quick, thorough):
        return thorough if self.thorough else quick

    # ---------------- building ----------------
    def build(self, coq_targets, prop_file=None):
        """regenerate tables, build the Coq targets, the model runner and the Go probe"""
        with BuildLock():
            self._build_go()
            self._gentables()
            self._build_coq(coq_targets)
            self._build_modelrun()
        if prop_file:
            self._check_property_file(prop_file)
            if self.thorough and not self.broken:
                self._coqchk(prop_file)
        self._grep_gate()

    def _build_go(self):
        rc, out, _ = sh(["go", "build", "-o", os.path.join(BUILD, "gentables"), "."],
                        cwd=os.path.join(VERIF, "tools", "gentables"), env=GOENV)
        if rc != 0:
            fatal("building tools/gentables failed:\n" + out)
        h = os.path.join(VERIF, "harness")
        sh(["cp", os.path.join(REPO, "go.sum"), os.path.join(h, "go.sum")])
        rc, out, _ = sh(["go", "build", "-tags", "verif", "-o", os.path.join(BUILD, "bclprobe"), "./cmd/bclprobe"],
                        cwd=h, env=GOENV)
        self.probe_ok = rc == 0
        if rc != 0:
            # the harness uses only the public API and the verif hooks; if /repo no longer builds
            # with them, nothing can be observed
            fatal("building harness against /repo failed:\n" + out[-4000:])

    def _gentables(self):
        os.makedirs(os.path.join(COQ, "Gen"), exist_ok=True)
        rc, out, _ = sh([os.path.join(BUILD, "gentables"), REPO, os.path.join(COQ, "Gen", "GenTables.v")])
        self.gentables_ok = rc == 0
        if rc != 0:
            self.broken.append(("tie", "translator tools/gentables", out.strip()[-500:]))

    def _build_coq(self, targets):
        if not os.path.exists(os.path.join(COQ, "Makefile")):
            sh("coq_makefile -f _CoqProject -o Makefile", cwd=COQ)
        # model + extraction inputs first: they do not depend on the generated tables
        rc, out, _ = sh(["make", "-j16", "Extract/Suites.vo"], cwd=COQ, timeout=3000)
        if rc != 0:
            fatal("Coq model does not build:\n" + out[-4000:])
        self.coq_log = ""
        for t in targets:
            rc, out, dt = sh(["make", "-j16", "-k", t], cwd=COQ, timeout=3000)
            self.coq_log += out
            if rc != 0:
                m = re.findall(r'File "\./([^"]+)", line (\d+)[^\n]*\n((?:.*\n){0,6})', out)
                detail = "; ".join("%s:%s %s" % (f, l, " ".join(e.split())[:300]) for f, l, e in m) or out[-600:]
                self.broken.append(("proof", t, detail))

    def _build_modelrun(self):
        ml = os.path.join(COQ, "Extract", "ml")
        os.makedirs(ml, exist_ok=True)
        exe = os.path.join(BUILD, "modelrun")
        src = os.path.join(COQ, "Extract", "Suites.vo")
        drv = os.path.join(COQ, "Extract", "driver.ml")
        if os.path.exists(exe) and os.path.getmtime(exe) >= max(os.path.getmtime(src), os.path.getmtime(drv)):
            return
        rc, out, _ = sh(["coqc", "-Q", "../..", "BCL", "../Extract.v"], cwd=ml, timeout=1200)
        if rc != 0:
            fatal("extraction failed:\n" + out[-3000:])
        sh(["cp", drv, ml])
        rc, out, _ = sh("ocamlfind ocamlopt -O2 -w -a model.mli model.ml driver.ml -o " + exe, cwd=ml, timeout=1200)
        if rc != 0:
            fatal("compiling the extracted model failed:\n" + out[-3000:])

    def _check_property_file(self, prop_file):
        """re-check the property theorems themselves on every run and read Print Assumptions"""
        path = os.path.join(COQ, prop_file)
        src = open(path).read()
        names = re.findall(r'^(?:Theorem|Lemma|Corollary|Example)\s+([A-Za-z0-9_\']+)', src, re.M)
        self.theorems = names
        self.obligations += len(names)
        vo = path[:-2] + ".vo"
        os.makedirs(os.path.join(WORK, "props"), exist_ok=True)
        rc, out, _ = sh(["coqc", "-Q", ".", "BCL", prop_file, "-o",
                         os.path.join(WORK, "props", os.path.basename(prop_file) + "o")], cwd=COQ, timeout=1200)
        self.prop_out = out
        if rc != 0:
            m = re.search(r'line (\d+)', out)
            line = int(m.group(1)) if m else 0
            ok = [n for n in names if src[:src.find(n)].count("\n") + 1 < line - 0] if line else []
            # theorems stated before the failing line that are complete
            done = 0
            for nme in names:
                mm = re.search(r'^(?:Theorem|Lemma|Corollary|Example)\s+' + re.escape(nme) + r'\b', src, re.M)
                endq = src.find("Qed.", mm.start())
                if endq >= 0 and src[:endq].count("\n") + 1 < line:
                    done += 1
            self.discharged += done
            failing = names[done] if done < len(names) else "?"
            self.broken.append(("proof", "%s:%s" % (prop_file, failing), " ".join(out.split())[-400:]))
            self.assumptions_closed = False
            return
        self.discharged += len(names)
        blocks = re.findall(r'(Closed under the global context|Axioms:\n(?:.+\n)+)', out)
        bad = [b for b in blocks if not b.startswith("Closed")]
        self.assumptions_closed = (len(bad) == 0 and len(blocks) > 0)
        if bad:
            self.broken.append(("proof", prop_file + ":assumptions", " ".join(" ".join(bad).split())[:400]))
        self.n_assumption_blocks = len(blocks)

    def _coqchk(self, prop_file):
        """thorough tier: re-check the compiled property file and everything it depends on with the independent
        checker, and record the axioms it reports"""
        mod = "BCL." + prop_file[:-2].replace("/", ".")
        # the result depends only on the compiled files: reuse it while none of them changed
        import hashlib
        h = hashlib.sha256(mod.encode())
        for root, _, fs in sorted(os.walk(COQ)):
            for f in sorted(fs):
                if f.endswith(".vo"):
                    h.update(f.encode())
                    with open(os.path.join(root, f), "rb") as fh:
                        h.update(hashlib.sha256(fh.read()).digest())
        key = h.hexdigest()
        cpath = os.path.join(BUILD, "coqchk_cache.json")
        try:
            cache = json.load(open(cpath))
        except Exception:
            cache = {}
        if key in cache:
            rc, out, dt = cache[key]["rc"], cache[key]["out"], 0.0
            self.notes.append("coqchk %s: result of an earlier run on the same compiled files reused" % mod)
        else:
            with BuildLock():
                rc, out, dt = sh(["coqchk", "-silent", "-o", "-Q", ".", "BCL", mod], cwd=COQ, timeout=7200)
            cache[key] = dict(rc=rc, out=out[-3000:], mod=mod)
            try:
                json.dump(cache, open(cpath, "w"))
            except Exception:
                pass
        self.notes.append("coqchk %s: exit %d in %.0fs" % (mod, rc, dt))
        m = re.search(r'\* Axioms:(.*?)(?:\n\* |\Z)', out, re.S)
        ax = " ".join(m.group(1).split()) if m else "?"
        self.coqchk_axioms = ax
        self.notes.append("coqchk axioms: " + ax[:600])
        if rc != 0:
            self.broken.append(("proof", "coqchk " + mod, out[-600:]))
        elif "<none>" not in ax and ax not in ("", "?"):
            # axioms of libraries loaded transitively would be listed here; ours must have none
            if re.search(r'BCL\.', ax):
                self.broken.append(("proof", "coqchk reports axioms in the development", ax[:400]))

    def _grep_gate(self):
        pat = re.compile(r'\b(Admitted|admit|Axiom|Parameter|Conjecture|Unset Guard|bypass_check|type-in-type|'
                         r'impredicative-set|Admit Obligations)\b')
        hits = []
        for root, _, fs in os.walk(COQ):
            if "Extract/ml" in root:
                continue
            for f in fs:
                if f.endswith(".v"):
                    txt = open(os.path.join(root, f)).read()
                    txt = re.sub(r'\(\*.*?\*\)', '', txt, flags=re.S)
                    for m in pat.finditer(txt):
                        hits.append("%s: %s" % (os.path.relpath(os.path.join(root, f), COQ), m.group(0)))
        if hits:
            self.broken.append(("proof", "grep gate", "; ".join(hits[:10])))

    def tie_ok(self, *names):
        """True iff none of the named build targets is among the broken obligations"""
        return not any(k in ("proof", "tie") and any(n in nm for n in names) for k, nm, _ in self.broken)

    # ---------------- running ----------------
    def probe(self, suite, cases, timeout=1800, tag=""):
        path = os.path.join(WORK, "%s_%s%s.cases.jsonl" % (self.prop, suite, tag))
        with open(path, "w") as f:
            for c in cases:
                f.write(json.dumps(c) + "\n")
        res, missing, tail = self.run_probe([os.path.join(BUILD, "bclprobe"), suite], cases, timeout,
                                            dict(os.environ, GOMAXPROCS=os.environ.get("GOMAXPROCS", "16")))
        return res, missing, tail

    def run_probe(self, argv, cases, timeout, env):
        """runs the probe on the cases; a probe that exits because a call hung (4), ran away with memory (5) or died is
        restarted on the cases after the culprit, which is left without a result (-> `missing`, `self.died`)"""
        todo = list(cases)
        res, tail, rc = {}, "", 0
        culprits = 0
        for attempt in range(40):
            if not todo:
                break
            if culprits >= 3:         # enough evidence: the remaining cases are not run
                self.notes.append("probe %s: stopped after %d cases that hung or ended the process; %d cases not run" % (
                    argv[-1], culprits, len(todo)))
                for c in todo:
                    res.setdefault(c["id"], None)
                break
            data = "".join(json.dumps(c) + "\n" for c in todo).encode()
            rc, out, dt = sh(argv, input=data, timeout=timeout, env=env)
            got = 0
            for line in out.splitlines():
                if line.startswith("{"):
                    try:
                        r = json.loads(line)
                        res[r["id"]] = r
                        got += 1
                    except Exception:
                        pass
            rest = [c for c in todo if c["id"] not in res]
            if rc == 0 or not rest:
                break
            tail = out[-2000:]
            culprits += 1
            if rc == 4:                 # a guarded call hung; its case has been reported with class hang
                todo = rest
                continue
            # died (panic in a goroutine, runaway memory, killed): the first case without a result is the culprit
            self.died[rest[0]["id"]] = "exit status %s: %s" % (rc, tail[-300:])
            todo = rest[1:]
        for c in cases:
            self.case_by_id[c["id"]] = c
        missing = [c["id"] for c in cases if c["id"] not in res]
        res = {k: v for k, v in res.items() if v is not None}
        return res, missing, (rc, tail if missing else "")

    def model(self, items, timeout=1800):
        """items: list of (suite, id, bytes) -> {id: result string}"""
        inp = "".join("%s\t%s\t%s\n" % (s, i, b.hex()) for s, i, b in items).encode()
        rc, out, dt = sh([os.path.join(BUILD, "modelrun")], input=inp, timeout=timeout, big_stack=True)
        res = {}
        for line in out.split("\n"):
            if "\t" in line:
                i, r = line.split("\t", 1)
                res[i] = r
        if rc != 0:
            self.notes.append("modelrun exit %d: %s" % (rc, out[-300:]))
        return res

    # ---------------- deciding ----------------
    def count(self, n=1, key=None):
        self.evals += n
        if key is not None:
            self.distinct.add(key)

    def sample(self, s, limit=6):
        if len(self.samples) < limit:
            self.samples.append(s)

    def violation(self, what, case, impl=None, model=None, theorem=None, kind="input", key=None):
        self.violations.append(dict(what=what, case=case, impl=impl, model=model, theorem=theorem, kind=kind,
                                    key=key or what))

    # ---------------- finishing ----------------
    def finish(self, level_note=""):
        findings = load_known_findings()
        out_lines = []
        real = []
        for v in self.violations:
            k = match_finding(findings, self.prop, v)
            if k:
                self.known.append((k, v))
            else:
                real.append(v)
        seen_known = set()
        for k, v in self.known:
            if k not in seen_known:
                seen_known.add(k)
                out_lines.append("KNOWN-FINDING: property=%s %s" % (self.prop, k))
        nrep = 0
        reported = set()
        for v in real:
            if v["key"] in reported and nrep >= 3:
                continue
            reported.add(v["key"])
            nrep += 1
            if nrep > 5:
                break
            path = os.path.join(REPLAY, "%s-%d.json" % (self.prop, nrep))
            with open(path, "w") as f:
                json.dump(dict(property=self.prop, kind=v["kind"], what=v["what"], case=v["case"], impl=v["impl"],
                               model=v["model"], theorem=v["theorem"], seed=self.seed, tier=self.tier), f, indent=1)
            out_lines.append("VIOLATION property=%s replay=%s" % (self.prop, path))
        if not real and self.broken:
            # a proof or tie obligation no longer checks and no concrete failing input was found
            path = os.path.join(REPLAY, "%s-broken.json" % self.prop)
            with open(path, "w") as f:
                json.dump(dict(property=self.prop, kind="proof-or-correspondence",
                               broken=[dict(kind=k, obligation=n, detail=d) for k, n, d in self.broken],
                               note="the named theorem / tie / correspondence no longer checks against the current "
                                    "source; the search found no input on which the property fails",
                               seed=self.seed, tier=self.tier), f, indent=1)
            out_lines.append("VIOLATION property=%s replay=%s no-failing-input-found" % (self.prop, path))
        failed = bool(real) or bool(self.broken)
        ev = dict(
            property_id=self.prop, tier=self.tier, seed=self.seed, level="proof",
            coverage=dict(
                obligations=max(self.obligations, 1), discharged=self.discharged,
                checker_cmd="cd coq && make -j16 Properties/%s.vo && coqc -Q . BCL Properties/%s.v "
                            "(Print Assumptions under every theorem)%s" % (
                                self.prop, self.prop, "; coqchk -silent -o" if self.thorough else ""),
                trusted_base=TRUSTED_BASE,
                theorems=self.theorems,
                assumptions_closed=self.assumptions_closed,
                broken_obligations=[dict(kind=k, obligation=n, detail=d) for k, n, d in self.broken],
                evaluations=self.evals, distinct_nontrivial=len(self.distinct),
                rule="a case counts as distinct and non-trivial by its suite-specific key (source text / "
                     "partition / script hash) and only if the implementation and the model both produced an "
                     "observation for it",
                traces_validated_against_impl=self.traces,
                samples=self.samples[:8],
                suites=self.suite_stats,
                notes=self.notes[:20],
            ),
            assumptions=[level_note] if level_note else [],
            wall_s=round(time.time() - self.t0, 2),
            violations=len(real) + (1 if (not real and self.broken) else 0),
            known_findings=sorted(seen_known),
        )
        os.makedirs(os.path.join(VERIF, "evidence"), exist_ok=True)
        with open(os.path.join(VERIF, "evidence", "%s.json" % self.prop), "w") as f:
            json.dump(ev, f, indent=1, sort_keys=True)
        for l in out_lines:
            print(l)
        print("%s %s tier=%s seed=%d obligations=%d/%d evaluations=%d distinct=%d wall=%.1fs" % (
            self.prop, "FAIL" if failed else "PASS", self.tier, self.seed, self.discharged, self.obligations,
            self.evals, len(self.distinct), time.time() - self.t0))
        sys.stdout.flush()
        return 1 if failed else 0


def fatal(msg):
    print("vcheck: " + msg, file=sys.stderr)
    sys.exit(3)


def load_known_findings():
    path = os.path.join(VERIF, "known_findings.txt")
    out = []
    if os.path.exists(path):
        for line in open(path):
            line = line.strip()
            m = re.match(r'finding:\s+property=(C\d+)\s+key=(\S+)\s+(.*)', line)
            if m:
                out.append(dict(prop=m.group(1), key=m.group(2), text=m.group(3)))
    return out


def match_finding(findings, prop, v):
    for f in findings:
        if f["prop"] == prop and f["key"] == v["key"]:
            return "key=%s %s" % (f["key"], f["text"])
    return None


def casehash(*parts):
    h = hashlib.sha1()
    for p in parts:
        if isinstance(p, str):
            p = p.encode()
        h.update(bytes(p))
        h.update(b"\0")
    return h.hexdigest()[:12]
