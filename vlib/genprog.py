"""Seeded generator of BCL programs (mostly valid, with typed expressions), used by the
correspondence suites.  Every random choice comes from the random.Random passed in."""
import random, struct

KEYWORDS = {"var", "def", "eval", "print", "bind", "true", "false", "nil", "not", "and", "or"}

def ident(rng, pool=None, maxlen=8):
    if pool and rng.random() < 0.8:
        return rng.choice(pool)
    while True:
        n = rng.randint(1, maxlen)
        s = rng.choice("abcdefghijklmnopqrstuvwxyzABCDEFXYZ_") + "".join(
            rng.choice("abcdefghijklmnopqrstuvwxyz0123456789_ABC") for _ in range(n - 1))
        if s not in KEYWORDS and s not in ("TYPE", "NAME"):
            return s

def int_lit(rng, v=None):
    if v is None:
        v = rng.choice([0, 1, 2, 3, 7, 10, 42, 255, 256, 1000, 65535, 2**31, 2**53 + 1,
                        2**63 - 1, rng.randint(0, 100), rng.randint(0, 2**40)])
    k = rng.random()
    if k < 0.7 or v == 0:
        return str(v), v
    if k < 0.85:
        return (("0x%x" if rng.random() < .5 else "0X%X") % v), v
    return "0" + oct(v)[2:], v

def float_lit(rng, small=False):
    if small:
        s = rng.choice(["%d.%d" % (rng.randint(0, 999), rng.randint(0, 99)), "%de%d" % (rng.randint(1, 99), rng.randint(0, 9)),
                        "0.5", "1.25e-3", "2.5", "1e3"])
        return s, float(s)
    k = rng.random()
    if k < 0.5:
        a, b = rng.randint(0, 999), rng.randint(0, 999)
        s = "%d.%d" % (a, b)
    elif k < 0.7:
        s = "%d%s%s%d" % (rng.randint(0, 99), rng.choice("eE"), rng.choice(["", "+", "-"]), rng.randint(0, 30))
    elif k < 0.9:
        s = "%d.%d%s%s%d" % (rng.randint(0, 9), rng.randint(0, 99999), rng.choice("eE"),
                             rng.choice(["", "+", "-"]), rng.randint(0, 300))
    else:
        s = rng.choice(["0.0", "1.0", "0.1", "0.2", "0.3", "2.5", "1e0", "4.9e-324", "1.7976931348623157e308",
                        "2.2250738585072014e-308", "9007199254740993.0", "0.30000000000000004",
                        "1e22", "1e23", "123456789012345678.0", "5e-324", "100000.0", "1000000.0", "0.0001", "0.00001"])
    return s, float(s)

ESCAPES = ['\\a', '\\b', '\\f', '\\n', '\\r', '\\t', '\\v', '\\\\', '\\"', '\\x41', '\\x00', '\\xff', '\\101',
           '\\u00e9', '\\u20ac', '\\U0001F600', '\\377']

def str_lit(rng, maxlen=12, body=None):
    """returns source text of a string literal (bytes)"""
    if body is not None:
        return b'"' + body + b'"'
    out = bytearray(b'"')
    for _ in range(rng.randint(0, maxlen)):
        k = rng.random()
        if k < 0.7:
            out += rng.choice("abcdefghij XYZ0123456789#;(){}=+-*/<>!:,.'").encode()
        elif k < 0.85:
            out += (rng.choice(ESCAPES) if rng.random() < 0.85 else rng.choice(["\\\\", "x\\\\", "\\\\\\\""])).encode()
        elif k < 0.95:
            out += rng.choice(["é", "€", "😀", " ", "\u0085", "ż"]).encode()
        else:
            # raw bytes, including every layout character but LF: inside the quotes none of them is layout
            out += bytes([rng.choice([0x80, 0xff, 0xc2, 0xe2, 0x04, 0x7f, 0x09, 0x0d, 0x0b, 0x0c, 0x0d, 0x00])])
    out += b'"'
    return bytes(out)

def strip_markers(text):
    """-> (plain text, [(offset in plain text, marker byte)])"""
    out, marks = bytearray(), []
    for b in text:
        if b in (1, 2, 3):
            marks.append((len(out), b))
        else:
            out.append(b)
    return bytes(out), marks


class Scope:
    def __init__(self, parent=None, block=False):
        self.parent, self.vars, self.fields, self.block = parent, {}, {}, block
    def depth(self):
        return 0 if self.parent is None else 1 + self.parent.depth()
    def lookup_vars(self):
        d, s = {}, self
        while s is not None:
            for k, v in s.vars.items():
                d.setdefault(k, v)
            s = s.parent
        return d
    def lookup_fields(self):
        d, s = {}, self
        while s is not None:
            for k, v in s.fields.items():
                d.setdefault(k, v)
            s = s.parent
        return d

class Gen:
    """types: 'int','float','str','bool','nil'"""
    def __init__(self, rng, max_depth=4, names=None, allow_errors=0.01, parens=0.15, small_floats=False):
        self.rng, self.max_depth, self.allow_errors, self.parens = rng, max_depth, allow_errors, parens
        self.small_floats = small_floats
        self.names = names or ["a", "b", "c", "x", "y", "foo", "bar_baz", "_t", "Port", "n1"]
        self.types_used = {}

    # precedence of the top operator of a generated expression (parse.go's ladder)
    P_ASSIGN, P_OR, P_AND, P_NOT, P_EQ, P_CMP, P_TERM, P_FACTOR, P_UNARY, P_ATOM = 1, 2, 3, 4, 5, 6, 7, 8, 9, 10

    def paren(self, s):
        """wrap a whole sub-expression: real parentheses with probability `parens`, and always an invisible
        marker pair (bytes 01/02) telling the layout suite where redundant parentheses may be added.
        s is (text, prec); the result is a text whose own top level is parenthesised or unchanged."""
        r = self.rng
        txt, prec = s
        while r.random() < self.parens:
            txt, prec = b"(" + txt + b")", self.P_ATOM
        return (b"\x01" + txt + b"\x02", prec)

    def wrap(self, e, need_gt=None, need_ge=None):
        """parenthesise operand e=(text, prec) unless its precedence binds tighter than required"""
        txt, prec = e
        if need_gt is not None and prec <= need_gt:
            return b"\x01(" + txt + b")\x02"
        if need_ge is not None and prec < need_ge:
            return b"\x01(" + txt + b")\x02"
        return txt

    def binl(self, l, op, r, prec):          # left-associative binary operator at level prec
        return (self.wrap(l, need_ge=prec) + b" " + op + b" " + self.wrap(r, need_gt=prec), prec)

    def binr(self, l, op, r, prec):          # and / or: the parser nests them to the right
        return (self.wrap(l, need_gt=prec) + b" " + op + b" " + self.wrap(r, need_ge=prec), prec)

    def atom(self, ty, sc):
        r = self.rng
        vars_ = [k for k, t in sc.lookup_vars().items() if t == ty]
        flds = [k for k, t in sc.lookup_fields().items() if t == ty] if sc.depth() > 0 else []
        if (vars_ or flds) and r.random() < 0.4:
            return (r.choice(vars_ + flds).encode(), self.P_ATOM)
        if ty == 'int':
            return (int_lit(r)[0].encode(), self.P_ATOM)
        if ty == 'float':
            return (float_lit(r, self.small_floats)[0].encode(), self.P_ATOM)
        if ty == 'str':
            return (str_lit(r), self.P_ATOM)
        if ty == 'bool':
            return (r.choice([b"true", b"false"]), self.P_ATOM)
        return (b"nil", self.P_ATOM)

    def expr(self, ty, sc, d=0):
        return self.expr2(ty, sc, d)[0]

    def expr2(self, ty, sc, d=0):
        """-> (text, precedence of its top operator); the generated tree IS the parse tree"""
        r = self.rng
        if r.random() < self.allow_errors:
            ty = r.choice(['int', 'float', 'str', 'bool', 'nil'])
        if d >= self.max_depth or r.random() < 0.25:
            return self.paren(self.atom(ty, sc))
        E = lambda t: self.expr2(t, sc, d + 1)
        num = lambda: r.choice(['int', 'float'])
        anyt = lambda: r.choice(['int', 'float', 'str', 'bool', 'nil'])
        lit = lambda b: (b, self.P_ATOM)
        def arith(a, b):
            op = r.choice([b"+", b"-", b"*", b"/"])
            rhs = E(b)
            if op == b"/" and b == 'int' and r.random() < 0.9:
                rhs = lit(int_lit(r, r.randint(1, 9))[0].encode())
            return self.binl(E(a), op, rhs, self.P_FACTOR if op in (b"*", b"/") else self.P_TERM)
        def unary(t):
            op = r.choice([b"-", b"+"])
            e = E(t)
            return (op + (b" " if r.random() < .3 else b"") + self.wrap(e, need_ge=self.P_UNARY), self.P_UNARY)
        if ty == 'int':
            k = r.random()
            if k < 0.6:
                s = arith('int', 'int')
            elif k < 0.75:
                s = unary('int')
            elif k < 0.85:
                s = self.binr(E('int'), b"and", E('int'), self.P_AND) if r.random() < .5 else \
                    self.binr(E('int'), b"or", E('int'), self.P_OR)
            else:
                a = self.assign(ty, sc, d)
                s = (a, self.P_ASSIGN) if a else self.atom(ty, sc)
        elif ty == 'float':
            k = r.random()
            if k < 0.6:
                a, b = r.choice([('float', 'float'), ('int', 'float'), ('float', 'int')])
                s = arith(a, b)
            elif k < 0.75:
                s = unary('float')
            else:
                s = self.atom(ty, sc)
        elif ty == 'str':
            k = r.random()
            if k < 0.5:
                s = self.binl(E('str'), b"+", E(r.choice(['str', 'str', 'int', 'float', 'nil'])), self.P_TERM)
            elif k < 0.65:
                s = self.binl(E('str'), b"*", lit(str(r.randint(0, 4)).encode()), self.P_FACTOR)
            elif k < 0.75:
                s = self.binr(E('str'), b"or", E('str'), self.P_OR)
            else:
                s = self.atom(ty, sc)
        elif ty == 'bool':
            k = r.random()
            if k < 0.25:
                s = self.binl(E(anyt()), r.choice([b"==", b"!="]), E(anyt()), self.P_EQ)
            elif k < 0.5:
                t = r.choice(['num', 'str'])
                a, b = (num(), num()) if t == 'num' else ('str', 'str')
                s = self.binl(E(a), r.choice([b"<", b">", b"<=", b">="]), E(b), self.P_CMP)
            elif k < 0.65:
                s = (b"not " + self.wrap(E(anyt()), need_ge=self.P_NOT), self.P_NOT)
            elif k < 0.85:
                s = self.binr(E('bool'), b"and", E('bool'), self.P_AND) if r.random() < .5 else \
                    self.binr(E('bool'), b"or", E('bool'), self.P_OR)
            else:
                s = self.atom(ty, sc)
        else:
            s = self.atom(ty, sc)
        return self.paren(s)

    def assign(self, ty, sc, d):
        """assignment expression to an existing var of type ty, or (in a block) a field"""
        r = self.rng
        vars_ = [k for k, t in sc.lookup_vars().items() if t == ty]
        if vars_ and r.random() < 0.7:
            return r.choice(vars_).encode() + b" = " + self.expr(ty, sc, d + 1)
        if sc.depth() > 0:
            f = ident(r, self.names)
            if f not in sc.lookup_vars():
                v = self.expr(ty, sc, d + 1)
                sc.fields[f] = ty
                return f.encode() + b" = " + v
        return None

    def stmt(self, sc, lines, indent, budget):
        r = self.rng
        ind = b"  " * indent
        k = r.random()
        ty = r.choice(['int', 'int', 'float', 'str', 'str', 'bool', 'nil'])
        semi = b";" if r.random() < 0.15 else b"\x03"      # 03 marks a place where ';' is optional and absent
        if k < 0.25:
            name = ident(r, self.names)
            if name in sc.vars and r.random() < 0.9:
                return
            if r.random() < 0.85:
                e = self.expr(ty, sc)
                lines.append(ind + b"var " + name.encode() + b" = " + e + semi)
                sc.vars[name] = ty
            else:
                lines.append(ind + b"var " + name.encode() + semi)
                sc.vars[name] = 'nil'
        elif k < 0.45:
            lines.append(ind + b"print " + self.expr(ty, sc) + semi)
        elif k < 0.55:
            a = self.assign(ty, sc, 0)
            lines.append(ind + b"eval " + (a or self.expr(ty, sc)) + semi)
        elif k < 0.8 and sc.depth() > 0:
            f = ident(r, self.names)
            if f in sc.lookup_vars():
                return
            e = self.expr(ty, sc)
            lines.append(ind + f.encode() + b" = " + e + semi)
            sc.fields[f] = ty
        elif k < 0.95 and sc.depth() < 6 and budget[0] > 0:
            budget[0] -= 1
            bt = ident(r, ["tunnel", "server", "db", "x", "node"])
            hdr = ind + b"def " + bt.encode()
            if r.random() < 0.6:
                hdr += b" " + str_lit(r, 6)
            lines.append(hdr + b" {")
            inner = Scope(sc, block=True)
            for _ in range(r.randint(0, 5)):
                self.stmt(inner, lines, indent + 1, budget)
            lines.append(ind + b"}" + semi)
            if sc.depth() == 0:
                self.types_used[bt] = self.types_used.get(bt, 0) + 1
        elif sc.depth() == 0 and self.types_used and r.random() < 0.5:
            bt = r.choice(list(self.types_used))
            n = self.types_used[bt]
            sel, tgt = r.choice([("", "struct"), (":1", "struct"), (":first", "struct"), (":last", "slice"),
                                 (":all", "slice"), (":first", "slice"), ("", "slice"), (":last", "struct")])
            if n != 1 and sel in ("", ":1") and r.random() < 0.8:
                sel = ":first"
            lines.append(b"bind " + bt.encode() + sel.encode() + b" -> " + tgt.encode() + semi)

    def program(self, nstmts=None):
        return strip_markers(self.program_marked(nstmts))[0]

    def program_marked(self, nstmts=None):
        r = self.rng
        sc = Scope()
        lines, budget = [], [8]
        self.types_used = {}
        for _ in range(nstmts if nstmts is not None else r.randint(1, 12)):
            self.stmt(sc, lines, 0, budget)
            if r.random() < 0.1:
                lines.append(b"# " + bytes(r.choice(b"abc \"'#;{}()=\xc3\xa9") for _ in range(r.randint(0, 12))))
            if r.random() < 0.05:
                lines.append(b"")
        sep = b"\r\n" if r.random() < 0.05 else b"\n"
        return sep.join(lines) + (sep if r.random() < 0.8 else b"")
