"""Seeded generator of BCL programs (mostly valid, with typed expressions), used by the
correspondence suites.  Every random choice comes from the random.Random passed in."""
import random, struct

KEYWORDS = {"var", "def", "eval", "print", "bind", "true", "false", "nil", "not", "and", "or"}

def ident(rng, pool=None, maxlen=8):
    if pool and rng.random() < 0.8:
        return rng.choice(pool)
    while True:
        n = rng.randint(1, maxlen)
        s = rng.choice("abcdefghijklmnopqrstuvwxyzABCDEFXYZ_") + "".join(
            rng.choice("abcdefghijklmnopqrstuvwxyz0123456789_ABC") for _ in range(n - 1))
        if s not in KEYWORDS and s not in ("TYPE", "NAME"):
            return s

def int_lit(rng, v=None):
    if v is None:
        v = rng.choice([0, 1, 2, 3, 7, 10, 42, 255, 256, 1000, 65535, 2**31, 2**53 + 1,
                        2**63 - 1, rng.randint(0, 100), rng.randint(0, 2**40)])
    k = rng.random()
    if k < 0.7 or v == 0:
        return str(v), v
    if k < 0.85:
        return (("0x%x" if rng.random() < .5 else "0X%X") % v), v
    return "0" + oct(v)[2:], v

def float_lit(rng):
    k = rng.random()
    if k < 0.5:
        a, b = rng.randint(0, 999), rng.randint(0, 999)
        s = "%d.%d" % (a, b)
    elif k < 0.7:
        s = "%d%s%s%d" % (rng.randint(0, 99), rng.choice("eE"), rng.choice(["", "+", "-"]), rng.randint(0, 30))
    elif k < 0.9:
        s = "%d.%d%s%s%d" % (rng.randint(0, 9), rng.randint(0, 99999), rng.choice("eE"),
                             rng.choice(["", "+", "-"]), rng.randint(0, 300))
    else:
        s = rng.choice(["0.0", "1.0", "0.1", "0.2", "0.3", "2.5", "1e0", "4.9e-324", "1.7976931348623157e308",
                        "2.2250738585072014e-308", "9007199254740993.0", "0.30000000000000004",
                        "1e22", "1e23", "123456789012345678.0", "5e-324", "100000.0", "1000000.0", "0.0001", "0.00001"])
    return s, float(s)

ESCAPES = ['\\a', '\\b', '\\f', '\\n', '\\r', '\\t', '\\v', '\\\\', '\\"', '\\x41', '\\x00', '\\xff', '\\101',
           '\\u00e9', '\\u20ac', '\\U0001F600', '\\377']

def str_lit(rng, maxlen=12, body=None):
    """returns source text of a string literal (bytes)"""
    if body is not None:
        return b'"' + body + b'"'
    out = bytearray(b'"')
    for _ in range(rng.randint(0, maxlen)):
        k = rng.random()
        if k < 0.7:
            out += rng.choice("abcdefghij XYZ0123456789#;(){}=+-*/<>!:,.'").encode()
        elif k < 0.85:
            out += rng.choice(ESCAPES).encode()
        elif k < 0.95:
            out += rng.choice(["é", "€", "😀", " ", "\u0085", "ż"]).encode()
        else:
            out += bytes([rng.choice([0x80, 0xff, 0xc2, 0xe2, 0x01, 0x7f, 0x09])])
    out += b'"'
    return bytes(out)

class Scope:
    def __init__(self, parent=None, block=False):
        self.parent, self.vars, self.fields, self.block = parent, {}, {}, block
    def depth(self):
        return 0 if self.parent is None else 1 + self.parent.depth()
    def lookup_vars(self):
        d, s = {}, self
        while s is not None:
            for k, v in s.vars.items():
                d.setdefault(k, v)
            s = s.parent
        return d
    def lookup_fields(self):
        d, s = {}, self
        while s is not None:
            for k, v in s.fields.items():
                d.setdefault(k, v)
            s = s.parent
        return d

class Gen:
    """types: 'int','float','str','bool','nil'"""
    def __init__(self, rng, max_depth=4, names=None, allow_errors=0.05, parens=0.15):
        self.rng, self.max_depth, self.allow_errors, self.parens = rng, max_depth, allow_errors, parens
        self.names = names or ["a", "b", "c", "x", "y", "foo", "bar_baz", "_t", "Port", "n1"]
        self.types_used = {}

    def paren(self, s):
        r = self.rng
        while r.random() < self.parens:
            s = b"(" + s + b")"
        return s

    def atom(self, ty, sc):
        r = self.rng
        vars_ = [k for k, t in sc.lookup_vars().items() if t == ty]
        flds = [k for k, t in sc.lookup_fields().items() if t == ty] if sc.depth() > 0 else []
        if (vars_ or flds) and r.random() < 0.4:
            return r.choice(vars_ + flds).encode()
        if ty == 'int':
            return int_lit(r)[0].encode()
        if ty == 'float':
            return float_lit(r)[0].encode()
        if ty == 'str':
            return str_lit(r)
        if ty == 'bool':
            return r.choice([b"true", b"false"])
        return b"nil"

    def expr(self, ty, sc, d=0):
        r = self.rng
        if r.random() < self.allow_errors:
            ty = r.choice(['int', 'float', 'str', 'bool', 'nil'])
        if d >= self.max_depth or r.random() < 0.25:
            return self.paren(self.atom(ty, sc))
        E = lambda t: self.expr(t, sc, d + 1)
        num = lambda: r.choice(['int', 'float'])
        anyt = lambda: r.choice(['int', 'float', 'str', 'bool', 'nil'])
        if ty == 'int':
            k = r.random()
            if k < 0.6:
                op = r.choice([b"+", b"-", b"*", b"/"])
                rhs = E('int')
                if op == b"/" and r.random() < 0.9:
                    rhs = self.paren(int_lit(r, r.randint(1, 9))[0].encode())
                s = E('int') + b" " + op + b" " + rhs
            elif k < 0.75:
                s = r.choice([b"-", b"+", b"- ", b"+ "]) + E('int')
            elif k < 0.85:
                s = E('bool') + b" and " + E('int') if r.random() < .5 else E('int') + b" or " + E('int')
            else:
                a = self.assign(ty, sc, d)
                s = (b"(" + a + b")") if a else self.atom(ty, sc)
        elif ty == 'float':
            k = r.random()
            if k < 0.6:
                a, b = r.choice([('float', 'float'), ('int', 'float'), ('float', 'int')])
                s = E(a) + b" " + r.choice([b"+", b"-", b"*", b"/"]) + b" " + E(b)
            elif k < 0.75:
                s = r.choice([b"-", b"+"]) + E('float')
            else:
                s = self.atom(ty, sc)
        elif ty == 'str':
            k = r.random()
            if k < 0.5:
                s = E('str') + b" + " + E(r.choice(['str', 'str', 'int', 'float', 'nil']))
            elif k < 0.65:
                s = E('str') + b" * " + self.paren(str(r.randint(0, 4)).encode())
            elif k < 0.75:
                s = E('str') + b" or " + E('str')
            else:
                s = self.atom(ty, sc)
        elif ty == 'bool':
            k = r.random()
            if k < 0.25:
                s = E(anyt()) + r.choice([b" == ", b" != "]) + E(anyt())
            elif k < 0.5:
                t = r.choice(['num', 'str'])
                a, b = (num(), num()) if t == 'num' else ('str', 'str')
                s = E(a) + r.choice([b" < ", b" > ", b" <= ", b" >= "]) + E(b)
            elif k < 0.65:
                s = b"not " + E(anyt())
            elif k < 0.85:
                s = E('bool') + r.choice([b" and ", b" or "]) + E('bool')
            else:
                s = self.atom(ty, sc)
        else:
            s = self.atom(ty, sc)
        return self.paren(s)

    def assign(self, ty, sc, d):
        """assignment expression to an existing var of type ty, or (in a block) a field"""
        r = self.rng
        vars_ = [k for k, t in sc.lookup_vars().items() if t == ty]
        if vars_ and r.random() < 0.7:
            return r.choice(vars_).encode() + b" = " + self.expr(ty, sc, d + 1)
        if sc.depth() > 0:
            f = ident(r, self.names)
            if f not in sc.lookup_vars():
                v = self.expr(ty, sc, d + 1)
                sc.fields[f] = ty
                return f.encode() + b" = " + v
        return None

    def stmt(self, sc, lines, indent, budget):
        r = self.rng
        ind = b"  " * indent
        k = r.random()
        ty = r.choice(['int', 'int', 'float', 'str', 'str', 'bool', 'nil'])
        semi = b";" if r.random() < 0.15 else b""
        if k < 0.25:
            name = ident(r, self.names)
            if name in sc.vars and r.random() < 0.9:
                return
            if r.random() < 0.85:
                e = self.expr(ty, sc)
                lines.append(ind + b"var " + name.encode() + b" = " + e + semi)
                sc.vars[name] = ty
            else:
                lines.append(ind + b"var " + name.encode() + semi)
                sc.vars[name] = 'nil'
        elif k < 0.45:
            lines.append(ind + b"print " + self.expr(ty, sc) + semi)
        elif k < 0.55:
            a = self.assign(ty, sc, 0)
            lines.append(ind + b"eval " + (a or self.expr(ty, sc)) + semi)
        elif k < 0.8 and sc.depth() > 0:
            f = ident(r, self.names)
            if f in sc.lookup_vars():
                return
            e = self.expr(ty, sc)
            lines.append(ind + f.encode() + b" = " + e + semi)
            sc.fields[f] = ty
        elif k < 0.95 and sc.depth() < 6 and budget[0] > 0:
            budget[0] -= 1
            bt = ident(r, ["tunnel", "server", "db", "x", "node"])
            hdr = ind + b"def " + bt.encode()
            if r.random() < 0.6:
                hdr += b" " + str_lit(r, 6)
            lines.append(hdr + b" {")
            inner = Scope(sc, block=True)
            for _ in range(r.randint(0, 5)):
                self.stmt(inner, lines, indent + 1, budget)
            lines.append(ind + b"}" + semi)
            if sc.depth() == 0:
                self.types_used[bt] = self.types_used.get(bt, 0) + 1
        elif sc.depth() == 0 and self.types_used and r.random() < 0.5:
            bt = r.choice(list(self.types_used))
            n = self.types_used[bt]
            sel, tgt = r.choice([("", "struct"), (":1", "struct"), (":first", "struct"), (":last", "slice"),
                                 (":all", "slice"), (":first", "slice"), ("", "slice"), (":last", "struct")])
            if n != 1 and sel in ("", ":1") and r.random() < 0.8:
                sel = ":first"
            lines.append(b"bind " + bt.encode() + sel.encode() + b" -> " + tgt.encode() + semi)

    def program(self, nstmts=None):
        r = self.rng
        sc = Scope()
        lines, budget = [], [8]
        self.types_used = {}
        for _ in range(nstmts if nstmts is not None else r.randint(1, 12)):
            self.stmt(sc, lines, 0, budget)
            if r.random() < 0.1:
                lines.append(b"# " + bytes(r.choice(b"abc \"'#;{}()=\xc3\xa9") for _ in range(r.randint(0, 12))))
            if r.random() < 0.05:
                lines.append(b"")
        sep = b"\r\n" if r.random() < 0.05 else b"\n"
        return sep.join(lines) + (sep if r.random() < 0.8 else b"")
