"""C11 (ParseFile terminates, closes once, leaks nothing), C12 (no data races), and the schedule part of C16."""
import json, os, random, re, subprocess
from .core import F, casehash, sh, VERIF, BUILD, GOENV
from .genprog import Gen

INPUT_CLASSES = {
    "valid": b"var x = 1\nvar y = x + 2\ndef b { f = y * 3 }\nprint y\n" * 3,
    "early_syntax": b"print 1 +\nvar x = 1\nprint x\n" + b"print 2\n" * 20,
    "late_syntax": b"print 2\n" * 20 + b"print 1 +\n",
    "many_syntax": b"print 1 +\nprint *\n" * 30,
    "early_lexfail": b"print @\n" + b"print 2\n" * 40,
    "late_lexfail": b"print 2\n" * 40 + b"print 12abc\n",
    "lexfail_string": b'print "abc\n' + b"print 2\n" * 10,
    "empty": b"",
    "many_syntax_long": b"".join(b"print %d +\nvar v%d = )\n" % (i, i) for i in range(200)),
    "semi_junk": b"eval 1; 2\nvar port = 8080; port = 9090\nprint 3\n" * 3,
    "multibyte": "print \"é€😀\" # é\u0085\nvar x = 1   print x\n".encode() * 4,
}


def read_page():
    """the size of ParseFile's read buffer, as the translator found it in api.go today (not a property: only needed to
    predict how a scripted reader's data is cut)"""
    try:
        m = re.search(r'\("ParseFile\.array", (\d+)\)', open(os.path.join(VERIF, "coq", "Gen", "GenTables.v")).read())
        return int(m.group(1))
    except Exception:
        return 4096


def effective(data, script):
    """what the reader will see: [(letter, chunk)] following harness scriptFile.Read"""
    PAGE = read_page()
    out = []
    for kind, n in script:
        if kind in ("x", "w"):
            out.append(("x", b""))
            return out
        if kind == "e":
            out.append(("e", b""))
            return out
        if kind == "D":
            if not data or n == 0:
                out.append(("e", b""))
                return out
            k = min(n, PAGE, len(data))
            out.append(("D", data[:k]))
            data = b""
            continue
        if not data:
            out.append(("e", b""))
            return out
        k = 0 if kind == "z" else min(n, PAGE, len(data))
        out.append(("z" if k == 0 else "d", data[:k]))
        data = data[k:]
    while data:
        out.append(("d", data[:PAGE]))
        data = data[PAGE:]
    out.append(("e", b""))
    return out


def gen_script(rng, n):
    s = []
    for _ in range(rng.randint(0, 8)):
        k = rng.random()
        if k < 0.6:
            s.append(["d", rng.choice([1, 2, 3, 7, 16, 100, 4096, 5000])])
        elif k < 0.8:
            s.append(["z", 0])
        elif k < 0.87:
            s.append(["D", rng.choice([1, 5, 50])])
        elif k < 0.94:
            s.append([rng.choice(["x", "x", "w"]), 0])
        else:
            s.append(["e", 0])
    return s


def check_C11(ctx):
    ctx.build(["Proofs/TieSync.vo", "Properties/C11.vo"], "Properties/C11.v")
    rng = random.Random(ctx.seed * 11003 + 11)
    g = Gen(rng, max_depth=2)
    inputs = dict(INPUT_CLASSES)
    for i in range(ctx.n(10, 60)):
        inputs["rand%d" % i] = g.program()
    inputs["big_valid"] = b"print 1\n" * 3000
    inputs["big_early_fail"] = b"print @\n" + b"print 1\n" * 3000
    cases = []
    fixed_scripts = [[], [["z", 0]], [["z", 0], ["z", 0], ["d", 3]], [["x", 0]], [["d", 5], ["x", 0]], [["e", 0]],
                     [["D", 9]], [["d", 1]] * 40, [["d", 2], ["z", 0]] * 10, [["d", 4096]], [["d", 10], ["e", 0]]]
    for name, data in inputs.items():
        scripts = list(fixed_scripts) + [gen_script(rng, len(data)) for _ in range(ctx.n(6, 40))]
        for j, sc in enumerate(scripts):
            api = ["parse", "parse", "interpret", "unmarshal"][(j + len(name)) % 4]
            cases.append(dict(id="%s/%d" % (name, j), src_hex=data.hex(), script=sc, api=api,
                              delay_us=rng.choice([0, 0, 0, 50, 300])))
    # diagnostics formatted while many further small chunks are still arriving (lexer, parser and reader all busy): repeated,
    # because what goes wrong here depends on the interleaving
    for k in range(ctx.n(25, 200)):
        cases.append(dict(id="many_syntax_long/r%d" % k, src_hex=INPUT_CLASSES["many_syntax_long"].hex(),
                          script=[["d", rng.choice([3, 3, 2, 5])]] * 1500, api=["parse", "interpret"][k % 2], delay_us=0))
    res, missing, err = ctx.probe("proto", cases, timeout=3000)
    for cid in missing[:3]:
        ctx.violation("the probe process died (panic in a ParseFile goroutine?)", dict(id=cid, log=(err or "")[-1500:]),
                      key="probe-crash", theorem="C11_no_deadlock")
    items = []
    for c in cases:
        eff = effective(bytes.fromhex(c["src_hex"]), c["script"])
        c["_eff"] = eff
        items.append(("proto", c["id"], F("".join(k for k, _ in eff), *[ch for k, ch in eff if k in "dzD"])))
    mres = ctx.model(items, timeout=3000)
    ndis = 0
    stats = {}
    for c in cases:
        r = res.get(c["id"])
        if not r:
            continue
        name = c["id"].split("/")[0]
        ctx.count(1, casehash(c["src_hex"], json.dumps(c["script"]), c["api"]))
        case = dict(input_class=name, src_hex=c["src_hex"][:400], script=c["script"], api=c["api"],
                    effective="".join(k for k, _ in c["_eff"]))
        stats[r["result"]] = stats.get(r["result"], 0) + 1
        if r["result"] in ("hang", "panic"):
            ctx.violation("%sFile %s" % (c["api"], r["result"]), case, impl=r, theorem="C11_terminates", key="file-" + r["result"])
            continue
        if r["closes"] != 1:
            ctx.violation("Close was called %d times (expected exactly once)" % r["closes"], case, impl=r,
                          theorem="C11_close_once", key="closes-%d" % min(r["closes"], 2))
        if r["reads_after_close"]:
            ctx.violation("Read was called after Close", case, impl=r, theorem="C11_close_once", key="read-after-close")
        if r["leaked"]:
            ctx.violation("%d goroutine(s) still alive after the call returned (1 s grace)" % r["leaked"], case, impl=r,
                          theorem="C11_no_leftover", key="goroutine-leak")
        m = dict(kv.split("=") for kv in (mres.get(c["id"]) or "").split(" ") if "=" in kv)
        if not m:
            continue
        if m.get("final") != "1" or m.get("closes") != "1":
            ctx.broken.append(("correspondence", "Proto.predict did not reach a final state / closes<>1", "%s -> %s" % (case, m)))
            continue
        # the result kind: API-level errors after a successful parse (runtime / bind) are not ParseFile's
        want = m["result"]
        got = r["result"]
        if c["api"] != "parse" and want == "nil" and got.startswith("other:"):
            got = "nil"
        if got != want:
            ndis += 1
            ctx.violation("returned error kind %s, the protocol model gives %s for every schedule" % (got, want), case, impl=r,
                          model=m, theorem="C11_result", key="result-kind")
        elif str(r["reads"]) != m["reads"]:
            ndis += 1
            ctx.violation("%d Read calls, the protocol model gives %s for every schedule" % (r["reads"], m["reads"]), case, impl=r,
                          model=m, theorem="C11_stops_reading", key="reads-count")
        if m.get("lexfail") == "1" and int(m["raf"]) > 1:
            ctx.broken.append(("correspondence", "model: more than one read after the lexical failure", str(m)))
    ctx.suite_stats["proto"] = dict(cases=len(cases), results=stats, disagreements=ndis, input_classes=sorted(inputs)[:12])
    ctx.traces = len(cases) - ndis
    for c in cases[12:15]:
        ctx.sample(dict(input=c["id"], script=c["script"], api=c["api"]))
    return ctx.finish("Go scheduler, timing and goroutine exit are observed (watchdog 10 s, grace 1 s), not modelled; the model "
                      "quantifies over all interleavings of its own transition system")


def build_race(ctx):
    h = os.path.join(VERIF, "harness")
    rc, out, _ = sh(["go", "build", "-race", "-tags", "verif", "-o", os.path.join(BUILD, "bclprobe-race"), "./cmd/bclprobe"],
                    cwd=h, env=dict(GOENV, CGO_ENABLED="1"), timeout=900)
    if rc != 0:
        ctx.notes.append("race build failed: " + out[-300:])
        return False
    return True


def probe_race(ctx, suite, cases, tag):
    """run the race-enabled probe; returns (results, race reports)"""
    path = os.path.join(VERIF, "evidence", "work", "%s_%s.cases.jsonl" % (ctx.prop, tag))
    with open(path, "w") as f:
        for c in cases:
            f.write(json.dumps(c) + "\n")
    data = open(path, "rb").read()
    p = subprocess.run([os.path.join(BUILD, "bclprobe-race"), suite], input=data, stdout=subprocess.PIPE,
                       stderr=subprocess.PIPE, timeout=3000, env=dict(os.environ, GORACE="halt_on_error=0 history_size=2", VERIF_WATCHDOG_S="300", VERIF_MEM_LIMIT_MB="24000"))
    res = {}
    for line in p.stdout.decode("utf8", "replace").splitlines():
        if line.startswith("{"):
            try:
                r = json.loads(line)
                res[r["id"]] = r
            except Exception:
                pass
    errtxt = p.stderr.decode("utf8", "replace")
    races = ["WARNING: DATA RACE" + part[:4000] for part in errtxt.split("WARNING: DATA RACE")[1:]]
    return res, races, p.returncode


def check_C12(ctx):
    ctx.build(["Proofs/TieGlobals.vo", "Proofs/TieSync.vo", "Properties/C12.vo"], "Properties/C12.v")
    rng = random.Random(ctx.seed * 12007 + 12)
    if not build_race(ctx):
        ctx.broken.append(("correspondence", "race-enabled build of the harness", "go build -race failed"))
        return ctx.finish()
    # pipeline: many diagnostics while later chunks are still being read
    many = b"".join(b"print %d +\nprint *\nvar v%d = )\n" % (i, i) for i in range(ctx.n(600, 3000)))
    inputs = {"many_syntax": many, "valid_big": b"var x = 1\nprint x + 1\n" * ctx.n(500, 5000),
              "early_fail": b"print @\n" + b"print 1\n" * 2000,
              "late_fail": b"print 1 +\n" * ctx.n(800, 3000) + b"print 12abc\n",
              "block_then_lexfail": b"def a{}\n" * 300 + b"eval 42q\n" + b"def b{}\n" * 50}
    cases = []
    for name, data in inputs.items():
        for j, sc in enumerate([[["d", 7]] * 4000, [["d", 1]] * 3000, [["d", 50], ["z", 0]] * 500, [], [["d", 4096]] * 3]):
            cases.append(dict(id="%s/%d" % (name, j), src_hex=data.hex(), script=sc, api="parse", delay_us=0))
        # a read error while diagnostics of earlier pages are still being written: everything must have stopped on return
        for j, sc in enumerate([[["d", 4096]] * 2 + [["x", 0]], [["d", 7]] * 300 + [["x", 0]], [["d", 600]] * 5 + [["w", 0]]]):
            for api in ("parse", "interpret"):
                cases.append(dict(id="%s/rderr%d/%s" % (name, j, api), src_hex=data.hex(), script=sc, api=api, delay_us=0))
    res, races, rc = probe_race(ctx, "proto", cases, "race_proto")
    for c in cases:
        ctx.count(1, casehash(c["src_hex"], json.dumps(c["script"][:3]), str(len(c["script"]))))
    if races:
        ctx.violation("data race reported by the race detector in the ParseFile pipeline (%d reports)" % len(races),
                      dict(suite="proto", inputs=sorted(inputs), note="re-run: build/bclprobe-race proto < evidence/work/C12_race_proto.cases.jsonl"),
                      impl=races[0][:3000], theorem="C12_pipeline_race_free", key="race-pipeline")
    for c in cases:
        r = res.get(c["id"])
        if r and (r["result"] in ("hang", "panic") or r["closes"] != 1):
            ctx.violation("pipeline under the race detector: %s closes=%s" % (r["result"], r["closes"]),
                          dict(id=c["id"]), impl=r, theorem="C12_pipeline_race_free", key="race-run-" + r["result"])
    # concurrent callers
    g = Gen(rng, max_depth=3, small_floats=True)
    progs = [g.program() for _ in range(ctx.n(12, 60))] + [b"def t { x = 1 }\nbind t -> struct\nprint 1\nprint 2\n",
                                                            b"print 1/0\n", b"var a = 1\n" * 200 + b"print a\n",
                                                            b"def t { x = 1 }\ndef t { x = 2 }\nbind t:first -> struct\nbind t:last -> struct\nbind t:all -> slice\nprint 3\n"]
    from . import interp as _interp
    progs = _interp.drop_excluded(ctx, progs)
    ccases = [dict(id="conc%d" % k, progs=[p.hex() for p in progs], n=ctx.n(8, 32), cold=(k == 0)) for k in range(ctx.n(2, 6))]
    cres, craces, crc = probe_race(ctx, "concurrent", ccases, "race_conc")
    if craces:
        ctx.violation("data race reported among concurrent callers (%d reports)" % len(craces),
                      dict(suite="concurrent", note="re-run: build/bclprobe-race concurrent < evidence/work/C12_race_conc.cases.jsonl"),
                      impl=craces[0][:3000], theorem="C12_execute_readonly", key="race-callers")
    for c in ccases:
        r = cres.get(c["id"])
        ctx.count(len(progs) * c["n"], c["id"])
        if not r:
            ctx.violation("concurrent callers: the probe died", dict(id=c["id"]), key="conc-crash", theorem="C12_execute_readonly")
            continue
        if r["a_class"] != "ok" or r["b_class"] != "ok" or r["a_diff"] or r["b_diff"] or r["b_out"] or r.get("u_diff"):
            ctx.violation("concurrent callers influenced each other's results: %s" % {k: r[k] for k in r if k != "id"},
                          dict(progs=[p.decode("utf8", "replace")[:80] for p in progs][:5]), impl=r,
                          theorem="C12_execute_readonly", key="conc-diff")
    ctx.suite_stats["race_pipeline"] = dict(cases=len(cases), race_reports=len(races))
    ctx.suite_stats["race_callers"] = dict(batches=len(ccases), programs=len(progs), goroutines_per_program=ccases[0]["n"],
                                           race_reports=len(craces))
    ctx.traces = len(cases) + len(ccases)
    ctx.sample(dict(pipeline="%d erroneous lines read 7 bytes / 1 byte at a time under -race" % many.count(b"\n")))
    ctx.sample(dict(callers="%d programs x %d goroutines, shared Prog and independent calls" % (len(progs), ccases[0]["n"])))
    return ctx.finish("the Go race detector is a dynamic search over the schedules that happened; the theorem covers all "
                      "interleavings of the model's transition system under channel/mutex happens-before only")
