"""Run the implementation (bclprobe interp) and the extracted model (suite interp) on the same
programs and compare projected observables."""
import re
from .core import F, casehash

KEYS = ["class", "err", "out", "log", "blocks", "binding", "parts"]
DIAG_RE = re.compile(rb"^line (\d+):(\d+): error(?: at (end|'(?:.|\n)*?'))?: (.*)$", re.M)
LEXMSG = (b"expected char", b"unknown char", b"invalid syntax", b"need more digits", b"unterminated quoted")


def parse_model(s):
    d = {}
    if s is None:
        return {"class": "missing"}
    idx = []
    for k in KEYS:
        m = re.search(r'(?:^| )%s=' % k, s)
        if m:
            idx.append((m.start(), m.end(), k))
    idx.sort()
    for n, (a, b, k) in enumerate(idx):
        end = idx[n + 1][0] if n + 1 < len(idx) else len(s)
        d[k] = s[b:end]
    if "class" in d and " " in d["class"]:
        d["class"], _, d["detail"] = d["class"].partition(" ")
    return d


def diag_proj(log):
    """(line, col, at) of every diagnostic line, wording dropped"""
    out = []
    for ln in log.split(b"\n"):
        m = re.match(rb"^line (\d+):(\d+): error(?: at (end|'.*'))?: ", ln)
        if m:
            out.append((int(m.group(1)), int(m.group(2)), m.group(3) or b""))
        elif ln.startswith(b"WARNING: line "):
            m2 = re.match(rb"^WARNING: line (\d+):(\d+): ", ln)
            out.append(("W", int(m2.group(1)), int(m2.group(2))) if m2 else ("W?",))
    return out


def has_lex_msg(log):
    return any(m in log for m in LEXMSG)


def go_class(o):
    if o["Class"] == "ok":
        return "ok"
    if o["Class"] == "err":
        e = o["Err"]
        if e == "combined errors from parse":
            return "parse"
        if e.startswith("runtime error"):
            return "runtime"
        if e.startswith("internal error"):
            return "internal"
        return "err:" + e
    return o["Class"]            # panic | hang


def compare(o, m, aspects):
    """o: Go interpObs dict, m: parsed model dict -> list of differing aspect names"""
    diffs = []
    gc, mc = go_class(o), m.get("class", "?")
    if gc == "panic" and mc.startswith("panic:"):
        return diffs
    if gc != mc:
        return ["class(%s/%s)" % (gc, mc)]
    if "err" in aspects and gc in ("runtime", "internal"):
        # position of the error (line:col), not the wording
        me = bytes.fromhex(m.get("err", "")).decode("utf8", "replace")
        pa, pb = re.search(r"line (\d+:\d+)", o["Err"]), re.search(r"line (\d+:\d+)", me)
        if (pa and pa.group(1)) != (pb and pb.group(1)):
            diffs.append("errpos")
    if "errtext" in aspects and gc in ("runtime", "internal"):
        if o["Err"].encode("utf8").hex() != m.get("err"):
            diffs.append("errtext")
    if "out" in aspects and o["Out"] != m.get("out", ""):
        diffs.append("out")
    if "outws" in aspects:
        # introspection text: compared modulo the amount of horizontal white space (column widths are not a property)
        norm = lambda h: re.sub(rb"[ \t]+", b" ", bytes.fromhex(h))
        if norm(o["Out"]) != norm(m.get("out", "")):
            diffs.append("out")
    if "log" in aspects:
        gl, ml = bytes.fromhex(o["Log"]), bytes.fromhex(m.get("log", ""))
        if diag_proj(gl) != diag_proj(ml):
            diffs.append("diag-positions")
        elif "logtext" in aspects and not has_lex_msg(gl) and gl != ml:
            diffs.append("log-text")
    if gc != "parse":
        for k, gk in (("blocks", "Blocks"), ("binding", "Binding"), ("parts", "Parts")):
            if k in aspects and o[gk] != m.get(k, ""):
                diffs.append(k)
    return diffs


def drop_excluded(ctx, srcs):
    """programs the property excludes (string repetition beyond 2^20 bytes: their legitimate result would itself exhaust
    memory) must not be executed by the implementation; the model recognises them"""
    m = ctx.model([("interp", "x%d" % i, F("input", s, "")) for i, s in enumerate(srcs)], timeout=3000)
    keep = [s for i, s in enumerate(srcs) if not (m.get("x%d" % i) or "").startswith("class=panic:EXCLUDED")]
    if len(keep) != len(srcs):
        ctx.suite_stats["excluded_by_property"] = ctx.suite_stats.get("excluded_by_property", 0) + len(srcs) - len(keep)
    return keep


def run(ctx, cases, tag=""):
    """cases: dicts with id, src (bytes), opts, name -> list of (case, goobs, model dict)"""
    mres = ctx.model([("interp", c["id"], F(c.get("name", "input"), c["src"], c.get("opts", ""))) for c in cases],
                     timeout=3000)
    # inputs the property excludes (string repetition beyond 2^20 bytes) are not run on the implementation
    excluded = {c["id"] for c in cases if (mres.get(c["id"]) or "").startswith("class=panic:EXCLUDED")}
    todo = [c for c in cases if c["id"] not in excluded]
    res, missing, err = ctx.probe("interp", [dict(id=c["id"], src_hex=c["src"].hex(), opts=c.get("opts", ""),
                                                  name=c.get("name", "input"), **{k: c[k] for k in ("seq", "sticky") if k in c})
                                             for c in todo], tag=tag, timeout=3000)
    out = []
    for c in todo:
        r = res.get(c["id"])
        if r and r.get("seq") is not None:
            r["obs"]["_seq"] = r["seq"]
        if r and r.get("sticky") is not None:
            r["obs"]["_sticky"] = r["sticky"]
        out.append((c, r["obs"] if r else None, parse_model(mres.get(c["id"]))))
    ctx.suite_stats.setdefault("excluded_by_property", 0)
    ctx.suite_stats["excluded_by_property"] += len(excluded)
    return out, missing, err
