"""C07 (chunk independence), C20 (layout), and the lexer-level parts of C08."""
import itertools, json, random
from .core import F, casehash
from .genprog import Gen, str_lit, ident

LEX_ATOMS = [b"var", b"def", b"eval", b"print", b"bind", b"true", b"false", b"nil", b"not", b"and", b"or",
             b"=", b"==", b"!=", b"<", b"<=", b">", b">=", b"+", b"-", b"*", b"/", b":", b"->", b";", b"{", b"}",
             b"(", b")", b"x", b"foo_bar", b"_a1", b"Port", b"0", b"1", b"42", b"0x1F", b"0X0", b"017", b"1.5",
             b"2e10", b"3.25E-4", b"1e+5", b'""', b'"a b"', b'"\\""', b'"\\n#;"', "\"é€😀\"".encode(),
             b'"\xff\xc2"', b"# comment\n", b"#\r", "# é \"x\n".encode(), b" ", b"\t", b"\n", b"\r\n", b"\v",
             b"\f", "\u0085".encode(), " ".encode(), b"  \n\n "]
LEX_BAD = [b"12abc", b'"foo"1', b'var"q"', b"0x10.", b"0x", b"1.", b"1e", b"1e+", b"1.5.2", b"1_0", b"!", b"!x",
           b"?", b"$", b"\xff", b"\xc2", b"\xe2\x82", "é".encode(), b'"unterminated', b'"a\nb"', b'"a\\', b"@",
           b"x\"y\"", b"1\"", b"0xg", b"0x1p3", b"09", b"1e5x", b'"\\\n"', b"[", b"]", b",", b"'", b"&", b"|", b"~"]


def lex_soup(rng, n, bad_rate=0.03):
    out = bytearray()
    for _ in range(n):
        if rng.random() < bad_rate:
            out += rng.choice(LEX_BAD)
        else:
            out += rng.choice(LEX_ATOMS)
        if rng.random() < 0.7:
            out += rng.choice([b" ", b" ", b"\n", b"\t", " ".encode(), "\u0085".encode(), b""])
    return bytes(out)


def norm_lex(obs):
    """On a lexical failure the line table holds the newlines of the chunks received so far, which
    legitimately depends on the chunking; only the entries below the failure offset are meaningful
    (they are what diagnostics use).  After tEOF the whole table is compared."""
    if not obs:
        return obs
    toks, _, lfs = obs.partition(" lfs=")
    last = toks.rsplit(",", 1)[-1]
    if last.startswith("tFAIL:") or last.startswith("toks=tFAIL:"):
        pos = int(last.rsplit(":", 1)[1])
        lfs = ",".join(x for x in lfs.split(",") if x and int(x) < pos)
    return toks + " lfs=" + lfs


def split_sizes(data, sizes):
    """chunk list as the lexer would receive it from a reader with these read sizes (0 = empty chunk)"""
    if not sizes:
        return [data]
    out, i, k = [], 0, 0
    while i < len(data) and k < 4 * len(data) + 8:
        n = sizes[k % len(sizes)]
        k += 1
        out.append(data[i:i + n])
        i += n
    if i < len(data):
        out.append(data[i:])
    return out


def partitions_for(rng, data, thorough):
    n = len(data)
    ps = [[], [1], [2], [3], [7], [0, 1], [1, 0, 0, 2], [4095], [4096], [4097]]
    for _ in range(3):
        ps.append([rng.randint(1, 9) for _ in range(rng.randint(1, 5))])
    if n <= 64 or thorough:
        for k in range(1, min(n, 200)):
            ps.append([k, max(n, 1)])          # every single cut point
    else:
        for k in rng.sample(range(1, n), min(n - 1, 12)):
            ps.append([k, n])
    return ps


def inputs(ctx, rng, n_prog, n_soup):
    g = Gen(rng, max_depth=3, allow_errors=0.1)
    ins = []
    for i in range(n_prog):
        ins.append(("prog", g.program()))
    for i in range(n_soup):
        ins.append(("soup", lex_soup(rng, rng.randint(1, 40), bad_rate=rng.choice([0, 0.02, 0.2]))))
    for b in LEX_BAD:
        ins.append(("bad", b"var x = 1 " + b + b" print x\n"))
        ins.append(("bad", b))
    fixed = [b"", b"\n", " ".encode(), "var x=1 print x".encode(), "va\u0085r".encode(),
             "print \"é\" # é\nprint 1\n".encode(), b"print 1 +\nprint *\n", b"a == b != c <= d >= e -> f",
             b"=" * 7, b"-" * 5 + b">", b"print 1 # no newline at end", b"\xef\xbb\xbfprint 1"]
    ins += [("fixed", f) for f in fixed]
    # real 4096-byte pages falling at every offset relative to a token
    base = "var café = \"é€\" + 12.5e3  >= 0x1F # ż\nprint café\n".encode()
    for k in range(0, len(base) + 2, 1 if ctx.thorough else 3):
        pad = b"#" + b"x" * (4096 - k - 2) + b"\n"
        ins.append(("page", pad + base))
    return ins


def check_C07(ctx):
    ctx.build(["Proofs/TieLex.vo", "Properties/C07.vo"], "Properties/C07.v")
    rng = random.Random(ctx.seed * 31337 + 7)
    ins = inputs(ctx, rng, ctx.n(40, 400), ctx.n(60, 600))
    lex_cases, chunk_cases = [], []
    for i, (kind, data) in enumerate(ins):
        ps = partitions_for(rng, data, ctx.thorough)
        cid = "%s-%d" % (kind, i)
        chunk_cases.append(dict(id=cid, name="f.bcl", src_hex=data.hex(), partitions=ps))
        for j, p in enumerate(ps):
            lex_cases.append(dict(id="%s/%d" % (cid, j), chunks=[c.hex() for c in split_sizes(data, p)], _data=data, _p=p))
    # all partitions of short inputs (thorough: up to 10 bytes; quick: up to 6)
    shorts = [b"a=1", "x y".encode(), b"1.5e3", b'"a"b', b"!=>", "é#\n1".encode()]
    if ctx.thorough:
        shorts += [b"var x=1;", "\u0085 ".encode() + b"0x1F", b'"\\""+1', b"->==<=", b"12abc 3"]
    for si, sdata in enumerate(shorts):
        n = len(sdata)
        for mask in range(1 << (n - 1)):
            cuts = [k + 1 for k in range(n - 1) if mask >> k & 1]
            chunks = [sdata[a:b] for a, b in zip([0] + cuts, cuts + [n])]
            lex_cases.append(dict(id="short%d/%d" % (si, mask), chunks=[c.hex() for c in chunks], _data=sdata, _p=cuts))
    # 1. lexer: implementation vs model, and implementation chunked vs whole
    res, missing, err = ctx.probe("lex", [dict(id=c["id"], chunks=c["chunks"]) for c in lex_cases])
    items = [("lex", c["id"], F(*[bytes.fromhex(h) for h in c["chunks"]])) for c in lex_cases]
    mres = ctx.model(items)
    whole = {}
    ndis = 0
    for c in lex_cases:
        r = res.get(c["id"])
        if not r:
            continue
        ctx.count(1, casehash(c["_data"], json.dumps(c["_p"])))
        case = dict(data_hex=c["_data"].hex(), chunks=c["chunks"])
        if r["class"] != "ok":
            ctx.violation("lexer %s on chunked input" % r["class"], case, impl=r, key="lex-" + r["class"])
            continue
        w = whole.setdefault(c["_data"], None)
        if w is None:
            wr, _, _ = ctx.probe("lex", [dict(id="w", chunks=[c["_data"].hex()])], tag="w")
            w = whole[c["_data"]] = wr["w"].get("obs")
        if norm_lex(r["obs"]) != norm_lex(w):
            ctx.violation("token stream / line table depends on the chunking", case, impl=r["obs"], model=w,
                          theorem="C07_lexer", key="lex-chunk-dependent")
        if mres.get(c["id"]) != r["obs"]:
            ndis += 1
            if ndis <= 3:
                ctx.broken.append(("correspondence", "suite lex: model lexer vs implementation",
                                   "case %s chunks=%s: model=%s impl=%s" % (c["id"], c["chunks"][:4],
                                                                            (mres.get(c["id"]) or "")[:300], r["obs"][:300])))
    ctx.traces += len(lex_cases) - ndis
    # 2. ParseFile under read scripts vs Parse
    cres, cmissing, cerr = ctx.probe("chunks", chunk_cases, timeout=3000)
    for cid in cmissing[:3]:
        ctx.violation("ParseFile crashed the process (panic in a goroutine?)", dict(id=cid, log=cerr[-1500:]),
                      key="parsefile-crash")
    nparts = 0
    for c in chunk_cases:
        r = cres.get(c["id"])
        if not r:
            continue
        for p in r["parts"]:
            nparts += 1
            ctx.count(1, casehash(c["src_hex"], "pf", json.dumps(p["sizes"])))
            if not p["same"]:
                ctx.violation("ParseFile differs from Parse under read sizes %s: %s" % (p["sizes"], p["class"]),
                              dict(src_hex=c["src_hex"], sizes=p["sizes"]), impl=p.get("obs"), model=r["whole"],
                              theorem="C07_parse_file", key="parsefile-differs:" + p["class"])
    ctx.suite_stats["lex"] = dict(cases=len(lex_cases), disagreements=ndis, inputs=len(ins),
                                  exhaustive_partitions_of=[len(s) for s in shorts])
    ctx.suite_stats["chunks"] = dict(inputs=len(chunk_cases), scripts=nparts)
    for c in lex_cases[:2] + lex_cases[-2:]:
        ctx.sample(dict(chunks=c["chunks"][:6]))
    return ctx.finish("token streams are observed through the verif-tagged hook VerifLex; ParseFile through scripted FileInputs")
